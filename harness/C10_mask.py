"""C10 - a sensitive-value mask hides every sensitive value at every depth of the tree."""
from typing import Optional

from cincoconfig import IntField, ListField, Schema, SecureField, StringField, VirtualField
from cincoconfig.core import Config

from vf.hlib import hold, known, obligation, skip
from vf.hlib.stubs import FakeFS, MemStore, make_type_nt

ENC = ["cincoconfig.core.Config.to_tree"]
KEYPATH = "/k/app.key"
KEY = bytes(range(1, 33))
POSITIONS = ("root", "nested", "nested2", "ct", "item", "item_nested")
STRS = ("", "a", "secret")
INTS = (0, 7, 12345)


def _leafs(owner: Schema, ss: bool, si: bool, sp: bool):
    owner.name = StringField(sensitive=ss, default="")
    owner.num = IntField(sensitive=si, default=0)
    owner.pw = SecureField(method="xor", sensitive=sp)
    owner.plain = StringField(default="visible")


def _build(pos: str, ss: bool, si: bool, sp: bool):
    schema = Schema()
    schema.top = StringField(default="t")
    if pos == "root":
        _leafs(schema, ss, si, sp)
    elif pos == "nested":
        _leafs(schema.a, ss, si, sp)
    elif pos == "nested2":
        _leafs(schema.a.b, ss, si, sp)
    elif pos == "ct":
        t = Schema()
        _leafs(t, ss, si, sp)
        schema.ct = make_type_nt(t, "T")
    elif pos == "item":
        item = Schema()
        _leafs(item, ss, si, sp)
        schema.items = ListField(item, default=lambda: [])
    elif pos == "item_nested":
        item = Schema()
        _leafs(item.inner, ss, si, sp)
        schema.a.items = ListField(item, default=lambda: [])
    return schema


def _set(cfg: Config, pos: str, s: str, n: int, p: str):
    vals = {"name": s, "num": n, "pw": p}
    if pos == "root":
        for k, v in vals.items():
            cfg[k] = v
    elif pos == "nested":
        cfg.a = vals
    elif pos == "nested2":
        cfg.a.b = vals
    elif pos == "ct":
        cfg.ct = vals
    elif pos == "item":
        cfg.items = [vals, {"name": "second", "num": 1, "pw": "x"}]
    elif pos == "item_nested":
        cfg.a.items = [{"inner": vals}]


def _mask_value(value, mask: str):
    text = str(value)
    if len(mask) == 1:
        return mask * len(text)
    return mask


def _oracle(tree, sens: dict, plainvals: dict, mask: Optional[str]):
    """tree rendered WITHOUT mask -> expected tree WITH mask (documented rule), recursively"""
    if isinstance(tree, list):
        return [_oracle(t, sens, plainvals, mask) for t in tree]
    if not isinstance(tree, dict):
        return tree
    out = {}
    for k, v in tree.items():
        if k in sens and "plain" in tree:  # a leaf group
            if sens[k] and mask is not None:
                raw = plainvals.get(k) if "plain" in tree and tree.get("plain") == "visible" else None
                out[k] = ("MASK", k)
            else:
                out[k] = v
        else:
            out[k] = _oracle(v, sens, plainvals, mask)
    return out


def _compare(masked, unmasked, sens, mask, values_by_group, label):
    """walk both trees; at leaf groups apply the rule"""
    if isinstance(unmasked, list):
        hold("mask", isinstance(masked, list) and len(masked) == len(unmasked), label + ": list shape")
        for i in range(len(unmasked)):
            _compare(masked[i], unmasked[i], sens, mask, values_by_group[i] if isinstance(values_by_group, list) else values_by_group, label)
        return
    if not isinstance(unmasked, dict):
        hold("mask", masked == unmasked, label + ": non-sensitive value altered")
        return
    hold("mask", isinstance(masked, dict) and list(masked.keys()) == list(unmasked.keys()), label + ": key set altered")
    is_group = "plain" in unmasked and "name" in unmasked
    for k in unmasked:
        if is_group and k in sens and sens[k] and mask is not None:
            live = values_by_group[k]
            if live in ("", 0, None):
                # empty sensitive value: the statement only speaks about non-empty ones
                hold("mask", masked[k] in (None, unmasked[k]), label + ": empty sensitive value rendered oddly")
            else:
                hold("mask", masked[k] == _mask_value(live, mask),
                     lambda: "%s: sensitive %s rendered as %r, expected %r" % (label, k, masked[k], _mask_value(live, mask)))
        elif is_group:
            hold("mask", masked[k] == unmasked[k], lambda: "%s: non-sensitive %s altered" % (label, k))
        else:
            sub_vals = values_by_group
            _compare(masked[k], unmasked[k], sens, mask, sub_vals, label)


def _groups(tree):
    """leaf groups (the maps holding name/num/pw/plain) of a rendered tree, in order"""
    if isinstance(tree, list):
        out = []
        for t in tree:
            out += _groups(t)
        return out
    if isinstance(tree, dict):
        if "plain" in tree and "name" in tree:
            return [tree]
        out = []
        for v in tree.values():
            out += _groups(v)
        return out
    return []


def _mk(pos: str):
    @obligation(prop="C10", name="mask_" + pos, group="mask", sites=("mask", "nomask"), encodes=ENC,
                stubs=("FakeFS",), budget={"quick": 200, "thorough": 500},
                what="String/Int/Secure leaf fields at position %s with symbolic sensitive flags, values from menus "
                     "(incl. empty) and a symbolic mask (None or |mask|<=2): to_tree(mask) == to_tree() with every "
                     "non-empty sensitive leaf replaced per the documented rule; mask=None alters nothing" % pos)
    def ob(ss: bool, si: bool, sp: bool, vi: int, mask: Optional[str]) -> bool:
        """
        pre: 0 <= vi <= 3
        pre: mask is None or len(mask) <= 2
        post: _
        """
        s_i, n_i, p_i = 0, 0, 0
        for i, trip in enumerate(((0, 0, 0), (1, 1, 2), (2, 2, 1), (1, 0, 0))):
            if vi == i:
                s_i, n_i, p_i = trip
        s = p = ""
        n = 0
        for i in range(3):
            if s_i == i:
                s = STRS[i]
            if n_i == i:
                n = INTS[i]
            if p_i == i:
                p = STRS[i]
        fs = FakeFS(files={KEYPATH: KEY}, dirs=["/k"])
        with fs.patched():
            cfg = _build(pos, ss, si, sp)(key_filename=KEYPATH)
            _set(cfg, pos, s, n, p)
            unmasked = cfg.to_tree()
            hold("nomask", cfg.to_tree(sensitive_mask=None) == unmasked, "mask=None altered the tree")
            masked = cfg.to_tree(sensitive_mask=mask)
            sens = {"name": ss, "num": si, "pw": sp}
            live = {"name": s, "num": n, "pw": p}
            second = {"name": "second", "num": 1, "pw": "x"}
            # without a mask NOTHING is altered, empty / zero values of sensitive fields included: the plain
            # leaves are rendered as the values the configuration holds (independent of the masked rendering)
            expect_groups = [live, second] if pos == "item" else [live]
            got_groups = _groups(unmasked)
            hold("nomask", len(got_groups) == len(expect_groups), "leaf groups missing from the unmasked tree")
            for g, want in zip(got_groups, expect_groups):
                hold("nomask", g["name"] == want["name"] and g["num"] == want["num"] and type(g["num"]) is int
                     and g["plain"] == "visible",
                     lambda: "without a mask the tree holds %r for values %r" % (g, want))
            if pos == "item":
                hold("mask", list(masked.keys()) == list(unmasked.keys()), "key set altered")
                hold("mask", masked["top"] == unmasked["top"], "top altered")
                _compare(masked["items"], unmasked["items"], sens, mask, [live, second], pos)
            elif pos == "item_nested":
                _compare(masked["a"]["items"], unmasked["a"]["items"], sens, mask, [live], pos)
                hold("mask", masked["top"] == unmasked["top"], "top altered")
            else:
                _compare(masked, unmasked, sens, mask, live, pos)
        return True


for _p in POSITIONS:
    _mk(_p)


@obligation(prop="C10", sites=("doc",), encodes=["cincoconfig.core.Config.dumps", "cincoconfig.core.Config.to_tree"],
            stubs=("FakeFS", "MemFormat"), budget={"quick": 60, "thorough": 120},
            what="document output: dumps(format, sensitive_mask=m) hands the formatter exactly to_tree(sensitive_mask=m)")
def dumps_passes_mask(mask: Optional[str], sp: bool) -> bool:
    """
    pre: mask is None or len(mask) <= 2
    post: _
    """
    fs = FakeFS(files={KEYPATH: KEY}, dirs=["/k"])
    mem = MemStore()
    with fs.patched(), mem.registered():
        cfg = _build("nested", True, False, sp)(key_filename=KEYPATH)
        _set(cfg, "nested", "secret", 7, "a")
        handle = cfg.dumps(format="mem", sensitive_mask=mask)
        hold("doc", mem.docs[handle] == cfg.to_tree(sensitive_mask=mask), "document differs from the masked tree")
    return True


@obligation(prop="C10", sites=("virt",), encodes=ENC, budget={"quick": 120, "thorough": 300},
            what="virtual fields marked sensitive, at the root and nested, rendered with virtual=True: masked like "
                 "stored sensitive fields (mask None or symbolic |mask|<=2); non-sensitive virtual fields unchanged")
def mask_virtual(sens: bool, nested: bool, mask: Optional[str]) -> bool:
    """
    pre: mask is None or len(mask) <= 2
    post: _
    """
    schema = Schema()
    owner = schema.db if nested else schema
    owner.user = StringField(default="admin")
    owner.password = StringField(default="hunter2", sensitive=True)
    owner.dsn = VirtualField(lambda cfg: "db://" + cfg.user + ":" + cfg.password, sensitive=sens)
    cfg = schema()
    unmasked = cfg.to_tree(virtual=True)
    masked = cfg.to_tree(virtual=True, sensitive_mask=mask)
    node_u = unmasked["db"] if nested else unmasked
    node_m = masked["db"] if nested else masked
    hold("virt", node_u["dsn"] == "db://admin:hunter2", "virtual value")
    if mask is None or not sens:
        hold("virt", node_m["dsn"] == node_u["dsn"], "non-sensitive virtual field (or no mask) altered")
    else:
        hold("virt", node_m["dsn"] == _mask_value(node_u["dsn"], mask),
             lambda: "sensitive virtual field rendered as %r" % (node_m["dsn"],))
    if mask is not None:
        hold("virt", node_m["password"] == _mask_value("hunter2", mask) and node_m["user"] == "admin", "stored fields")
    return True


@obligation(prop="C10", sites=("container",), encodes=ENC, stubs=("FakeFS",), budget={"quick": 120, "thorough": 300},
            what="a LIST or DICT field that is itself marked sensitive (list of configurations with their own "
                 "values, list of strings, typed dict): with a mask (none, empty, one character, two characters) the whole value is replaced per the rule and no "
                 "item value appears; without a mask or when not sensitive it is rendered as usual")
def mask_sensitive_container(kind: int, sens: bool, nested: bool, mi: int) -> bool:
    """
    pre: 0 <= kind <= 2 and 0 <= mi <= 3
    post: _
    """
    mask = None
    for n, cand in enumerate((None, "", "*", "XX")):
        if mi == n:
            mask = cand
    from cincoconfig import DictField
    item = Schema()
    item.token = StringField(default="")
    schema = Schema()
    owner = schema.vault if nested else schema
    owner.keep = StringField(default="visible")
    if kind == 0:
        owner.box = ListField(item, sensitive=sens, default=lambda: [])
    elif kind == 1:
        owner.box = ListField(StringField(), sensitive=sens, default=lambda: [])
    else:
        owner.box = DictField(StringField(), StringField(), sensitive=sens, default=lambda: {})
    cfg = schema()
    node = cfg.vault if nested else cfg
    if kind == 0:
        node.box = [{"token": "tok-SECRET-1"}, {"token": "tok-SECRET-2"}]
    elif kind == 1:
        node.box = ["tok-SECRET-1", "tok-SECRET-2"]
    else:
        node.box = {"a": "tok-SECRET-1"}
    unmasked = cfg.to_tree()
    masked = cfg.to_tree(sensitive_mask=mask)
    mu = unmasked["vault"] if nested else unmasked
    mm = masked["vault"] if nested else masked
    hold("container", mm["keep"] == "visible", "non-sensitive sibling altered")
    if mask is None or not sens:
        hold("container", mm["box"] == mu["box"], "container altered although not sensitive / no mask")
    else:
        hold("container", "SECRET" not in repr(mm["box"]),
             lambda: "value of a sensitive container field appears in the masked output: %r" % (mm["box"],))
        hold("container", mm["box"] == mask or (len(mask) == 1 and isinstance(mm["box"], str) and set(mm["box"]) <= {mask}),
             lambda: "sensitive container rendered as %r" % (mm["box"],))
    return True


@obligation(prop="C10", sites=("mask", "nomask"), encodes=ENC, stubs=("FakeFS",), regions=("nested_container",),
            budget={"quick": 200, "thorough": 400},
            what="configurations held in a list that is itself an item of another typed container (list of lists of "
                 "configurations, dict of lists of configurations): sensitive leaves are masked like anywhere else")
def mask_nested_container(in_dict: bool, ss: bool, si: bool, vi: int, mi: int, empty_first: bool = False) -> bool:
    """
    pre: 0 <= vi <= 2 and 0 <= mi <= 3
    post: _
    """
    from cincoconfig import DictField
    mask = None
    for n, cand in enumerate((None, "", "*", "XX")):
        if mi == n:
            mask = cand
    s, n_ = "", 0
    for i, (cs, cn) in enumerate((("", 0), ("a", 7), ("secret", 12345))):
        if vi == i:
            s, n_ = cs, cn
    known("nested_container", mask is not None and ((ss and s != "") or (si and n_ != 0)))
    item = Schema()
    item.name = StringField(sensitive=ss, default="")
    item.num = IntField(sensitive=si, default=0)
    item.plain = StringField(default="visible")
    schema = Schema()
    if in_dict:
        schema.box = DictField(StringField(), ListField(item), default=lambda: {})
    else:
        schema.box = ListField(ListField(item), default=lambda: [])
    cfg = schema()
    # (empty_first: the FIRST inner container holds no configuration, a later one does)
    if in_dict:
        cfg.box = {"a": [], "k": [{"name": s, "num": n_}]} if empty_first else {"k": [{"name": s, "num": n_}]}
    else:
        cfg.box = [[], [{"name": s, "num": n_}]] if empty_first else [[{"name": s, "num": n_}]]
    at = 1 if empty_first else 0
    unmasked = cfg.to_tree()
    hold("nomask", cfg.to_tree(sensitive_mask=None) == unmasked, "mask=None altered the tree")
    masked = cfg.to_tree(sensitive_mask=mask)
    leaf_u = unmasked["box"]["k"][0] if in_dict else unmasked["box"][at][0]
    leaf_m = masked["box"]["k"][0] if in_dict else masked["box"][at][0]
    hold("mask", leaf_m["plain"] == "visible", "non-sensitive leaf altered")
    for key, sens, live in (("name", ss, s), ("num", si, n_)):
        if sens and mask is not None and live not in ("", 0):
            hold("mask", leaf_m[key] == _mask_value(live, mask),
                 lambda: "sensitive %s inside a nested container rendered as %r" % (key, leaf_m[key]))
        elif not sens or mask is None:
            hold("mask", leaf_m[key] == leaf_u[key], "leaf altered")
    return True


@obligation(prop="C10", sites=("mask",), encodes=ENC, budget={"quick": 200, "thorough": 400},
            what="history: the configuration is rendered once while a list of configurations is still EMPTY, the "
                 "list is then filled in place (append / insert / += / slice; symbolic), and rendered again with a "
                 "mask: sensitive item values are masked (also nested one level down)")
def mask_after_inplace_fill(pre_render: int, fill: int, nested: bool, mi: int) -> bool:
    """
    pre: 0 <= pre_render <= 2 and 0 <= fill <= 3 and 0 <= mi <= 2
    post: _
    """
    mask = ("", "*", "XX")[0]
    for n, cand in enumerate(("", "*", "XX")):
        if mi == n:
            mask = cand
    item = Schema()
    item.token = StringField(sensitive=True, default="")
    item.name = StringField(default="n")
    schema = Schema()
    owner = schema.grp if nested else schema
    owner.items = ListField(item, default=lambda: [])
    cfg = schema()
    if pre_render == 1:
        cfg.to_tree()
    elif pre_render == 2:
        cfg.to_tree(sensitive_mask="#")
    lst = (cfg.grp if nested else cfg).items
    new = {"token": "tok-SECRET", "name": "a"}
    if fill == 0:
        lst.append(new)
    elif fill == 1:
        lst.insert(0, new)
    elif fill == 2:
        lst += [new]
    else:
        lst[0:0] = [new]
    tree = cfg.to_tree(sensitive_mask=mask)
    leaf = (tree["grp"] if nested else tree)["items"][0]
    hold("mask", leaf["token"] == _mask_value("tok-SECRET", mask) and leaf["name"] == "a",
         lambda: "item rendered as %r after the list was filled in place" % (leaf,))
    return True
