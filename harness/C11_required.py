"""C11 - a load that returns means required fields are set and every validator passed."""
from typing import Optional

from cincoconfig import (DictField, FeatureFlagField, IntField, ListField, Schema, StringField, validator)
from cincoconfig.core import Config, ValidationError

from vf.hlib import hold, obligation, skip
from vf.hlib.stubs import make_type_nt

ENC = ["cincoconfig.core.Schema._validate", "cincoconfig.core.Schema._validate_field",
       "cincoconfig.core.Config.load_tree", "cincoconfig.core.Field.validate"]

LEVELS = ("root", "sub", "deep", "item_load", "item_append", "ct")
KINDS = ("int", "str", "list", "dict")


def _field(kind: str, required: bool, has_default: bool):
    if kind == "int":
        return IntField(required=required, default=5 if has_default else None)
    if kind == "str":
        return StringField(required=required, default="d" if has_default else None)
    if kind == "dict":
        return DictField(StringField(), IntField(), required=required, default=(lambda: {"k": 1}) if has_default else None)
    return ListField(IntField(), required=required, default=(lambda: [1]) if has_default else None)


def _value(kind: str, valkind: int):
    """0 None, 1 empty, 2 non-empty"""
    if valkind == 0:
        return None
    if kind == "int":
        return 0 if valkind == 1 else 9
    if kind == "str":
        return "" if valkind == 1 else "v"
    if kind == "dict":
        return {} if valkind == 1 else {"j": 3}
    return [] if valkind == 1 else [3]


def _is_set(kind: str, value) -> bool:
    """'has a value (not unset, and not empty for strings, lists and dicts)'"""
    if value is None:
        return False
    if kind in ("str", "list", "dict") and len(value) == 0:
        return False
    return True


def _run(level: str, kind_i: int, required: bool, has_default: bool, present: bool, valkind: int, prior: bool,
         v_raises: bool, v_outer_raises: bool, flag: int, omit: bool = False) -> bool:
    kind = KINDS[0]
    for i in range(len(KINDS)):
        if kind_i == i:
            kind = KINDS[i]
    log = []
    item = Schema()
    schema = Schema()
    schema.keep = IntField(default=1)
    # where the field under test lives
    if level == "root":
        owner = schema
    elif level == "sub":
        owner = schema.sub
    elif level == "deep":
        owner = schema.sub.deep
    elif level in ("item_load", "item_append"):
        owner = item
    else:
        owner = Schema()
    owner.r = _field(kind, required, has_default)
    owner.pad = IntField(default=0)
    if level in ("item_load", "item_append"):
        schema.items = ListField(item, default=lambda: [])
    if level == "ct":
        schema.ct = make_type_nt(owner, "T")
    # feature flag on the sub-configuration: 0 no flag field, 1 on, 2 off
    flagged = level in ("sub", "deep") and flag
    if flagged:
        schema.sub.enabled = FeatureFlagField(default=(flag == 1))
    enabled = not (flagged and flag == 2)

    @validator(owner)
    def owner_validator(cfg):
        log.append("owner")
        if v_raises:
            raise ValueError("owner validator")

    @validator(schema)
    def root_validator(cfg):
        log.append("root")
        if v_outer_raises:
            raise ValueError("root validator")

    # tree
    leaf = {}
    if present:
        leaf["r"] = _value(kind, valkind)
    if level == "root":
        tree = dict(leaf)
    elif level == "sub":
        tree = {"sub": leaf}
    elif level == "deep":
        tree = {"sub": {"deep": leaf}}
    elif level == "item_load":
        tree = {"items": [leaf]}
    elif level == "ct":
        tree = {"ct": leaf}
    else:
        tree = {}
    if omit:
        # the document does not mention the (sub)configuration at all: its defaults stay, and it is still validated
        tree = {}
    # effective value of r after the load (reference)
    default_val = {"int": 5, "str": "d", "list": [1], "dict": {"k": 1}}[kind] if has_default else None
    cfg = schema()
    prior_val = None
    if prior and level in ("root",):
        prior_val = {"int": 4, "str": "p", "list": [4], "dict": {"p": 4}}[kind]
        cfg.r = prior_val
    elif prior:
        skip("prior state only modelled for the root level")
    if present:
        effective = _value(kind, valkind)
    elif prior_val is not None:
        effective = prior_val
    else:
        effective = default_val
    missing = required and not _is_set(kind, effective)
    own_level_fails = missing or v_raises
    if level in ("sub", "deep") and not enabled:
        # exempt: its own fields and validators do not count (a present None / empty value for a required field
        # is still rejected at assignment time by the field itself, which the statement does not exempt)
        should_raise = v_outer_raises
        if level == "deep" and own_level_fails:
            skip("configuration nested inside a disabled one: the statement does not say whether it is exempt")
        if present and required and not _is_set(kind, effective):
            skip("assignment-time rejection inside a disabled sub-configuration: not fixed by the statement")
    else:
        should_raise = own_level_fails or v_outer_raises
    raised = None
    try:
        if level == "item_append":
            it = item()
            if present:
                try:
                    it.r = _value(kind, valkind)
                except ValidationError:
                    skip("value rejected before insertion")
            cfg.items.append(it)
            cfg.validate()
        else:
            cfg.load_tree(tree)
    except Exception as exc:  # noqa: BLE001
        raised = exc
    if raised is not None:
        hold("raises", should_raise, lambda: "load/validate raised %r although every required field is set and "
             "no validator fails (r=%r)" % (raised, effective))
        hold("raises", isinstance(raised, ValidationError), lambda: "raised %r, not ValidationError" % (raised,))
    else:
        hold("returns", not should_raise,
             lambda: "load returned although %s (r=%r, required=%r, log=%r)" % (
                 "a required field is unset/empty" if missing else "a validator raises", effective, required, log))
        # every enabled level's validators ran; none inside a disabled one
        hold("returns", "root" in log, "root schema validator was not run")
        if level == "sub" and not enabled:
            hold("returns", "owner" not in log, "validator of a disabled sub-configuration was run")
        elif level == "deep" and not enabled:
            pass  # nested inside a disabled configuration: not fixed by the statement
        else:
            hold("returns", "owner" in log, "validator of an enabled (sub)configuration was not run")
    # a required container emptied in place must be reported by an explicit validation (both modes)
    if raised is None and required and kind in ("list", "dict") and level == "root" and _is_set(kind, effective):
        cfg.r.clear()
        try:
            cfg.validate()
            hold("returns", False, "validate() returned although a required container is now empty")
        except ValidationError:
            pass
        hold("collect", len(cfg.validate(collect_errors=True)) > 0, "collecting mode missed the empty required container")
        return True
    # collecting mode agrees with raising mode on the same state
    if level not in ("item_append", "item_load") or raised is None:
        try:
            cfg.validate()
            raising = False
        except ValidationError:
            raising = True
        errs = cfg.validate(collect_errors=True)
        hold("collect", (len(errs) > 0) == raising, lambda: "collecting mode returned %r but raising mode %s" % (
            errs, "raised" if raising else "returned"))
        hold("collect", all(isinstance(e, ValidationError) for e in errs), "collected a non-ValidationError")
    return True


def _mk(level: str):
    @obligation(prop="C11", name="required_" + level, group="required", sites=("raises", "returns", "collect"),
                encodes=ENC, budget={"quick": 500, "thorough": 900},
                what="field r (int/str/typed list/typed dict) at level %s with symbolic required / has-default / present-in-tree / "
                     "value None|empty|non-empty / prior state / raising validators at its own and the root level / "
                     "feature flag none|on|off: the load returns iff the recursive oracle finds no unset required "
                     "field and no raising validator in an enabled configuration; raised type is ValidationError; "
                     "collecting mode agrees; validator log == enabled levels" % level)
    def ob(kind_i: int, required: bool, has_default: bool, present: bool, valkind: int, prior: bool,
           v_raises: bool, v_outer_raises: bool, flag: int, omit: bool) -> bool:
        """
        pre: 0 <= kind_i <= 3 and 0 <= valkind <= 2 and 0 <= flag <= 2
        post: _
        """
        if omit and (present or level in ("root", "item_load", "item_append")):
            skip("omitting the key: only for sub-configurations, with nothing to put under it")
        if not present and valkind:
            skip("value unused")
        if level not in ("sub", "deep") and flag:
            skip("flag unused")
        if level != "root" and prior:
            skip("prior unused")
        return _run(level, kind_i, required, has_default, present, valkind, prior, v_raises, v_outer_raises, flag, omit)


for _l in LEVELS:
    _mk(_l)
