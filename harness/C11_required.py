"""C11 - a load that returns means required fields are set and every validator passed."""
from typing import Optional

from cincoconfig import (DictField, FeatureFlagField, IntField, ListField, Schema, StringField, validator)
from cincoconfig.core import Config, ValidationError

from vf.hlib import hold, obligation, skip
from vf.hlib.stubs import make_type_nt

ENC = ["cincoconfig.core.Schema._validate", "cincoconfig.core.Schema._validate_field",
       "cincoconfig.core.Config.load_tree", "cincoconfig.core.Field.validate"]

LEVELS = ("root", "sub", "deep", "item_load", "item_append", "ct")
KINDS = ("int", "str", "list", "dict")


def _field(kind: str, required: bool, has_default: bool):
    if kind == "int":
        return IntField(required=required, default=5 if has_default else None)
    if kind == "str":
        return StringField(required=required, default="d" if has_default else None)
    if kind == "dict":
        return DictField(StringField(), IntField(), required=required, default=(lambda: {"k": 1}) if has_default else None)
    return ListField(IntField(), required=required, default=(lambda: [1]) if has_default else None)


def _value(kind: str, valkind: int):
    """0 None, 1 empty, 2 non-empty"""
    if valkind == 0:
        return None
    if kind == "int":
        return 0 if valkind == 1 else 9
    if kind == "str":
        return "" if valkind == 1 else "v"
    if kind == "dict":
        return {} if valkind == 1 else {"j": 3}
    return [] if valkind == 1 else [3]


def _is_set(kind: str, value) -> bool:
    """'has a value (not unset, and not empty for strings, lists and dicts)'"""
    if value is None:
        return False
    if kind in ("str", "list", "dict") and len(value) == 0:
        return False
    return True


def _run(level: str, kind_i: int, required: bool, has_default: bool, present: bool, valkind: int, prior: bool,
         v_raises: bool, v_outer_raises: bool, flag: int, omit: bool = False) -> bool:
    kind = KINDS[0]
    for i in range(len(KINDS)):
        if kind_i == i:
            kind = KINDS[i]
    log = []
    item = Schema()
    schema = Schema()
    schema.keep = IntField(default=1)
    # where the field under test lives
    if level == "root":
        owner = schema
    elif level == "sub":
        owner = schema.sub
    elif level == "deep":
        owner = schema.sub.deep
    elif level in ("item_load", "item_append"):
        owner = item
    else:
        owner = Schema()
    owner.r = _field(kind, required, has_default)
    owner.pad = IntField(default=0)
    if level in ("item_load", "item_append"):
        schema.items = ListField(item, default=lambda: [])
    if level == "ct":
        schema.ct = make_type_nt(owner, "T")
    # feature flag on the sub-configuration: 0 no flag field, 1 on, 2 off
    flagged = level in ("sub", "deep") and flag
    if flagged:
        schema.sub.enabled = FeatureFlagField(default=(flag == 1))
    enabled = not (flagged and flag == 2)

    # at the config-type level the validator may be registered on the FIELD that holds the config type
    via_ct_field = level == "ct" and prior

    @validator(schema._fields["ct"] if via_ct_field else owner)
    def owner_validator(cfg):
        log.append("owner")
        if v_raises:
            raise ValueError("owner validator")

    @validator(schema)
    def root_validator(cfg):
        log.append("root")
        if v_outer_raises:
            raise ValueError("root validator")

    # tree
    leaf = {}
    if present:
        leaf["r"] = _value(kind, valkind)
    if level == "root":
        tree = dict(leaf)
    elif level == "sub":
        tree = {"sub": leaf}
    elif level == "deep":
        tree = {"sub": {"deep": leaf}}
    elif level == "item_load":
        tree = {"items": [leaf]}
    elif level == "ct":
        tree = {"ct": leaf}
    else:
        tree = {}
    if omit:
        # the document does not mention the (sub)configuration at all: its defaults stay, and it is still validated
        tree = {}
    # effective value of r after the load (reference)
    default_val = {"int": 5, "str": "d", "list": [1], "dict": {"k": 1}}[kind] if has_default else None
    cfg = schema()
    prior_val = None
    if prior and level in ("root",):
        prior_val = {"int": 4, "str": "p", "list": [4], "dict": {"p": 4}}[kind]
        cfg.r = prior_val
    elif prior and level != "ct":
        skip("prior state only modelled for the root level")
    if present:
        effective = _value(kind, valkind)
    elif prior_val is not None:
        effective = prior_val
    else:
        effective = default_val
    missing = required and not _is_set(kind, effective)
    own_level_fails = missing or v_raises
    if level in ("sub", "deep") and not enabled:
        # exempt: its own fields and validators do not count (a present None / empty value for a required field
        # is still rejected at assignment time by the field itself, which the statement does not exempt)
        should_raise = v_outer_raises
        if level == "deep" and own_level_fails:
            skip("configuration nested inside a disabled one: the statement does not say whether it is exempt")
        if present and required and not _is_set(kind, effective):
            skip("assignment-time rejection inside a disabled sub-configuration: not fixed by the statement")
    else:
        should_raise = own_level_fails or v_outer_raises
    raised = None
    try:
        if level == "item_append":
            it = item()
            if present:
                try:
                    it.r = _value(kind, valkind)
                except ValidationError:
                    skip("value rejected before insertion")
            cfg.items.append(it)
            cfg.validate()
        else:
            cfg.load_tree(tree)
    except Exception as exc:  # noqa: BLE001
        raised = exc
    if raised is not None:
        hold("raises", should_raise, lambda: "load/validate raised %r although every required field is set and "
             "no validator fails (r=%r)" % (raised, effective))
        hold("raises", isinstance(raised, ValidationError), lambda: "raised %r, not ValidationError" % (raised,))
    else:
        hold("returns", not should_raise,
             lambda: "load returned although %s (r=%r, required=%r, log=%r)" % (
                 "a required field is unset/empty" if missing else "a validator raises", effective, required, log))
        # every enabled level's validators ran; none inside a disabled one
        hold("returns", "root" in log, "root schema validator was not run")
        if level == "sub" and not enabled:
            hold("returns", "owner" not in log, "validator of a disabled sub-configuration was run")
        elif level == "deep" and not enabled:
            pass  # nested inside a disabled configuration: not fixed by the statement
        else:
            hold("returns", "owner" in log, "validator of an enabled (sub)configuration was not run")
    # a required container emptied in place must be reported by an explicit validation (both modes)
    if raised is None and required and kind in ("list", "dict") and level == "root" and _is_set(kind, effective):
        cfg.r.clear()
        try:
            cfg.validate()
            hold("returns", False, "validate() returned although a required container is now empty")
        except ValidationError:
            pass
        hold("collect", len(cfg.validate(collect_errors=True)) > 0, "collecting mode missed the empty required container")
        return True
    # collecting mode agrees with raising mode on the same state
    if level not in ("item_append", "item_load") or raised is None:
        try:
            cfg.validate()
            raising = False
        except ValidationError:
            raising = True
        errs = cfg.validate(collect_errors=True)
        hold("collect", (len(errs) > 0) == raising, lambda: "collecting mode returned %r but raising mode %s" % (
            errs, "raised" if raising else "returned"))
        hold("collect", all(isinstance(e, ValidationError) for e in errs), "collected a non-ValidationError")
    return True


def _mk(level: str):
    @obligation(prop="C11", name="required_" + level, group="required", sites=("raises", "returns", "collect"),
                encodes=ENC, budget={"quick": 500, "thorough": 900},
                what="field r (int/str/typed list/typed dict) at level %s with symbolic required / has-default / present-in-tree / "
                     "value None|empty|non-empty / prior state / raising validators at its own and the root level / "
                     "feature flag none|on|off: the load returns iff the recursive oracle finds no unset required "
                     "field and no raising validator in an enabled configuration; raised type is ValidationError; "
                     "collecting mode agrees; validator log == enabled levels" % level)
    def ob(kind_i: int, required: bool, has_default: bool, present: bool, valkind: int, prior: bool,
           v_raises: bool, v_outer_raises: bool, flag: int, omit: bool) -> bool:
        """
        pre: 0 <= kind_i <= 3 and 0 <= valkind <= 2 and 0 <= flag <= 2
        post: _
        """
        if omit and (present or level in ("root", "item_load", "item_append")):
            skip("omitting the key: only for sub-configurations, with nothing to put under it")
        if not present and valkind:
            skip("value unused")
        if level not in ("sub", "deep") and flag:
            skip("flag unused")
        if level not in ("root", "ct") and prior:
            skip("prior unused (root: prior state; ct: validator registered through the config-type field)")
        return _run(level, kind_i, required, has_default, present, valkind, prior, v_raises, v_outer_raises, flag, omit)


for _l in LEVELS:
    _mk(_l)


# --------------------------------------------------------------------------- field-level validators
@obligation(prop="C11", sites=("returns", "raises"), budget={"quick": 120, "thorough": 300},
            encodes=["cincoconfig.support.validator", "cincoconfig.core.Field.validate", "cincoconfig.core.Config.load_tree"],
            what="k <= 3 validators registered on ONE field (the first through the constructor or the decorator, the "
                 "others through the decorator; field at the root or nested; symbolic which one rejects): a load or "
                 "assignment returns iff none of them rejects, and every registered validator up to the rejecting "
                 "one was run against the loaded value, in registration order")
def field_validators_all_run(nested: bool, k: int, via_ctor: bool, fail: int, route: int, x: int) -> bool:
    """
    pre: 0 <= k <= 3 and -1 <= fail <= 2 and 0 <= route <= 2 and 0 <= x <= 9
    post: _
    """
    if fail >= k:
        skip("the rejecting validator must be a registered one")
    if via_ctor and k == 0:
        skip("nothing to pass to the constructor")
    log = []

    def make(i):
        def check(cfg, value):
            log.append((i, value))
            if i == fail:
                raise ValueError("validator %d rejects" % i)
            return value
        return check

    schema = Schema()
    owner = schema.sec if nested else schema
    start = 0
    if via_ctor:
        owner.n = IntField(default=0, validator=make(0))
        start = 1
    else:
        owner.n = IntField(default=0)
    for i in range(start, k):
        validator(owner._fields["n"])(make(i))
    cfg = schema()
    del log[:]                       # (defaults are not validated; be independent of that)
    tree = {"sec": {"n": x}} if nested else {"n": x}
    raised = None
    try:
        if route == 0:
            cfg.load_tree(tree)
        elif route == 1:
            cfg["sec.n" if nested else "n"] = x
        else:
            schema(**tree)
    except Exception as exc:  # noqa: BLE001
        raised = exc
    ran = [i for i, _ in log]
    if fail < 0:
        hold("returns", raised is None, lambda: "no validator rejects but the operation raised %r" % (raised,))
        # (a load validates each value when it is stored and once more in its final validation pass)
        passes = len(ran) // k if k else 0
        hold("returns", (k == 0 and not ran) or (passes >= 1 and ran == list(range(k)) * passes),
             lambda: "registered validators 0..%d, run: %r" % (k - 1, ran))
    else:
        hold("raises", raised is not None,
             lambda: "validator %d of %d rejects the value but the operation returned (validators run: %r)" % (fail, k, ran))
        hold("raises", isinstance(raised, ValueError) and ran == list(range(fail + 1)),
             lambda: "validators run %r, expected 0..%d; raised %r" % (ran, fail, raised))
    hold("returns" if fail < 0 else "raises", all(v == x for _, v in log), "a validator saw another value than the loaded one")
    return True


# --------------------------------------------------------------------------- states reached by direct edits
@obligation(prop="C11", sites=("raises", "returns"), budget={"quick": 120, "thorough": 300},
            encodes=["cincoconfig.core.Schema._validate", "cincoconfig.core.Schema._validate_field",
                     "cincoconfig.fields.list_field.ListProxy._validate"],
            what="prior states reached by DIRECT edits rather than by loads: a sub-configuration replaced by a "
                 "configuration object whose required field is unset, a loaded sub-configuration edited so that its "
                 "schema validator fails, an invalid configuration object offered to a list a second time after "
                 "having been refused; then load_tree({}) / validate() / collecting validate(): returns iff every "
                 "required field is set and every validator passes (oracle evaluated on the final values)")
def revalidation_after_edits(case: int, mode: int, fix: bool) -> bool:
    """
    pre: 0 <= case <= 3 and 0 <= mode <= 2
    post: _
    """
    schema = Schema()
    schema.keep = IntField(default=1)
    schema.db.host = StringField(required=True)
    schema.db.port = IntField(default=5)
    item = Schema()
    item.name = StringField(required=True)
    item.n = IntField(default=0)
    schema.items = ListField(item, default=lambda: [])

    @validator(schema.db)
    def db_validator(cfg):
        if cfg.port is not None and cfg.port > 100:
            raise ValueError("port too large")

    @validator(item)
    def item_validator(cfg):
        if cfg.n is not None and cfg.n > 100:
            raise ValueError("n too large")

    cfg = schema()
    cfg.load_tree({"db": {"host": "h"}, "items": [{"name": "a"}]})
    second_insert_refused = True
    if case == 0:
        cfg.db = schema.db()                 # a configuration object of the right schema, required host unset
        if fix:
            cfg.db.host = "again"
    elif case == 1:
        cfg.db.port = 101 if not fix else 99  # the sub-configuration's own validator now fails
    elif case == 2:
        from cincoconfig import reset_value
        reset_value(cfg, "db.host")           # back to its (absent) default: the required field is unset again
        if fix:
            cfg.db.host = "h2"
    else:
        bad = item()                          # required name unset
        if fix:
            bad.name = "b"
        for attempt in (0, 1):
            try:
                cfg.items.append(bad)
                if attempt == 1:
                    second_insert_refused = False
            except ValueError:
                pass
        if fix:
            second_insert_refused = True      # (a valid object may of course be inserted, twice)
    hold("raises" if not fix else "returns", second_insert_refused,
         "a configuration object that was refused is accepted when it is inserted again")
    invalid = not fix and case in (0, 1, 2)
    raised, errors = None, None
    try:
        if mode == 0:
            cfg.load_tree({})
        elif mode == 1:
            cfg.validate()
        else:
            errors = cfg.validate(collect_errors=True)
    except Exception as exc:  # noqa: BLE001
        raised = exc
    if mode == 2:
        hold("raises" if invalid else "returns", raised is None and bool(errors) == invalid,
             lambda: "collecting mode returned %r (raised %r) for a configuration that is %s" % (
                 errors, raised, "invalid" if invalid else "valid"))
    elif invalid:
        hold("raises", isinstance(raised, ValidationError),
             lambda: "returned normally (raised %r) although a required field is unset or a validator fails" % (raised,))
    else:
        hold("returns", raised is None, lambda: "valid configuration rejected: %r" % (raised,))
    # whatever got into the list satisfies the item rule
    for it in cfg.items:
        hold("returns" if not invalid else "raises", it.name not in (None, ""), "a list item without its required field is in the list")
    return True


# --------------------------------------------------------------------------- a document that switches a feature on
@obligation(prop="C11", sites=("raises", "returns"), budget={"quick": 120, "thorough": 300},
            encodes=["cincoconfig.core.Schema._validate", "cincoconfig.core.Config.load_tree"],
            what="a sub-configuration whose feature flag is OFF before the load holds a list of configurations and a "
                 "required field; the loaded tree switches the flag on (or leaves it off) and carries list items "
                 "and values, with the flag key BEFORE or AFTER the other keys (symbolic): the load returns iff the "
                 "flag ends up off, or every item and field of the now enabled sub-configuration satisfies the rule")
def flag_switched_by_the_document(flag_first: bool, turn_on: bool, bad_item: int, name_given: bool, was_on: bool) -> bool:
    """
    pre: 0 <= bad_item <= 2
    post: _
    """
    item = Schema()
    item.url = StringField(required=True)
    item.retries = IntField(default=1)

    @validator(item)
    def item_validator(cfg):
        if cfg.retries is not None and cfg.retries > 9:
            raise ValueError("too many retries")
    schema = Schema()
    schema.keep = IntField(default=1)
    schema.hooks.enabled = FeatureFlagField(default=was_on)
    schema.hooks.name = StringField(required=True)
    schema.hooks.endpoints = ListField(item, default=lambda: [])
    # bad_item: 0 every item fine, 1 an item without its required field, 2 an item failing the item validator
    items = [{"url": "u"}, {} if bad_item == 1 else ({"url": "u", "retries": 10} if bad_item == 2 else {"url": "v"})]
    pairs = [("endpoints", items)]
    if name_given:
        pairs.append(("name", "n"))
    flag_pair = ("enabled", turn_on)
    pairs = [flag_pair] + pairs if flag_first else pairs + [flag_pair]
    tree = {"hooks": dict(pairs)}
    cfg = schema()
    raised = None
    try:
        cfg.load_tree(tree)
    except Exception as exc:  # noqa: BLE001
        raised = exc
    on = turn_on
    # items of configuration lists are held to the rule when they are loaded, whatever the flag says at that moment
    # may differ between implementations; what the statement fixes: with the feature ON at the end everything counts
    must_raise = on and (bad_item != 0 or not name_given)
    if must_raise:
        hold("raises", isinstance(raised, ValidationError),
             lambda: "the load returned (%r) with the feature on and an invalid item / unset required field" % (raised,))
    elif on:
        hold("returns", raised is None, lambda: "valid document rejected: %r" % (raised,))
    else:
        # flag off at the end: the sub-configuration is exempt; a rejection of a bad ITEM while it was loaded is
        # allowed ("held to the same rule when they are loaded"), anything else must not fail
        hold("returns", raised is None or (bad_item != 0 and isinstance(raised, ValidationError)),
             lambda: "document for a disabled feature rejected: %r" % (raised,))
    return True


# --------------------------------------------------------------------------- required secrets
@obligation(prop="C11", sites=("raises", "returns"), stubs=("FakeFS",), budget={"quick": 60, "thorough": 120},
            encodes=["cincoconfig.core.Field.validate", "cincoconfig.core.Schema._validate"],
            what="a required SecureField (text, like a string field) at the root or nested, loaded with nothing / "
                 "null / the empty text / a text, with or without a default: the load returns iff the field ends up "
                 "with a non-empty value; a returned configuration can be saved and loaded again")
def required_secret(nested: bool, present: int, has_default: bool) -> bool:
    """
    pre: 0 <= present <= 3
    post: _
    """
    from cincoconfig import SecureField
    from vf.hlib.stubs import FakeFS
    fs = FakeFS(files={"/k/c11.key": bytes(range(1, 33))}, dirs=["/k"])
    with fs.patched():
        schema = Schema()
        owner = schema.auth if nested else schema
        owner.pw = SecureField(method="xor", required=True, default="dflt" if has_default else None)
        owner.pad = IntField(default=0)
        leaf = {}
        if present == 1:
            leaf["pw"] = None
        elif present == 2:
            leaf["pw"] = ""
        elif present == 3:
            leaf["pw"] = "s3cret"
        tree = {"auth": leaf} if nested else leaf
        cfg = schema(key_filename="/k/c11.key")
        raised = None
        try:
            cfg.load_tree(tree)
        except Exception as exc:  # noqa: BLE001
            raised = exc
        final = "s3cret" if present == 3 else ("" if present == 2 else (None if present == 1 else ("dflt" if has_default else None)))
        if final in (None, ""):
            hold("raises", isinstance(raised, ValidationError),
                 lambda: "the load returned (%r) although the required secret is %r" % (raised, final))
        else:
            hold("returns", raised is None, lambda: "valid secret rejected: %r" % (raised,))
            again = schema(key_filename="/k/c11.key")
            again.load_tree(cfg.to_tree())
            hold("returns", (again.auth if nested else again).pw == final, "saved tree does not load back")
    return True
