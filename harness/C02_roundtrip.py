"""C02 - saving and re-loading a configuration reproduces it exactly, in every format."""
import hashlib
from typing import Optional

from cincoconfig import (AnyField, BoolField, BytesField, ChallengeField, DictField, FloatField, IntField,
                         ListField, Schema, SecureField, StringField, VirtualField, asdict, instance_method)
from cincoconfig.core import Config
from cincoconfig.fields.secure_field import DigestValue

from vf.hlib import hold, known, obligation, skip
from vf.hlib.stubs import FakeFS, MemStore, is_plain_data, make_type_nt

ENC = ["cincoconfig.core.Config.to_tree", "cincoconfig.core.Config.load_tree"]
KEYPATH = "/k/app.key"
KEY = bytes(range(1, 32)) + b"\n"      # a valid key whose last byte is a line feed (key files are binary)
BYTES = (b"", b"\x00", b"\xfe\xff", b"abc", b"YWJj")
TEXTS = ("", "a", "Zm9v", "with space", "ünï-" + "long secret beyond one key length " * 2)


def _pick(menu, i):
    for n in range(len(menu)):
        if i == n:
            return menu[n]
    skip("menu")


def _same(a, b) -> bool:
    """equality of asdict() results; DigestValue compares by salt/digest"""
    if isinstance(a, DigestValue) or isinstance(b, DigestValue):
        return isinstance(a, DigestValue) and isinstance(b, DigestValue) and a.salt == b.salt and a.digest == b.digest
    if isinstance(a, dict) and isinstance(b, dict):
        return list(a.keys()) == list(b.keys()) and all(_same(a[k], b[k]) for k in a)
    if isinstance(a, (list, tuple)) and isinstance(b, (list, tuple)):
        return len(a) == len(b) and all(_same(x, y) for x, y in zip(a, b))
    return type(a) is type(b) and a == b


def _norm(d: dict) -> dict:
    """the two normalisations the statement allows: unset typed list/dict may come back empty; empty secret -> unset"""
    out = {}
    for k, v in d.items():
        if isinstance(v, dict):
            out[k] = _norm(v)
        elif isinstance(v, list):
            out[k] = [(_norm(i) if isinstance(i, dict) else i) for i in v]
        else:
            out[k] = v
        if not isinstance(k, str):
            continue
        if k.startswith("tl_") and out[k] is None:
            out[k] = []
        if k.startswith("td_") and out[k] is None:
            out[k] = {}
        if k.startswith("sec") and out[k] == "":
            out[k] = None
        if k == "tl_sec" and isinstance(out[k], list):
            out[k] = [None if i == "" else i for i in out[k]]
        if k == "ll_sec" and isinstance(out[k], list):
            out[k] = [[None if i == "" else i for i in inner] for inner in out[k]]
        if k in ("ll_bytes", "ld_ch", "ll_sec") and out[k] is None:
            out[k] = []
        if k == "dl_bytes" and out[k] is None:
            out[k] = {}
    return out


# --------------------------------------------------------------------------- symbolic scalar / container kinds
def _roundtrip(schema, fill, virtual_keys=(), method_keys=()) -> bool:
    fs = FakeFS(files={KEYPATH: KEY}, dirs=["/k"])
    mem = MemStore()
    with fs.patched(), mem.registered():
        cfg = schema(key_filename=KEYPATH)
        fill(cfg)
        tree = cfg.to_tree()
        hold("tree", is_plain_data(tree), lambda: "to_tree() is not plain data: %r" % (tree,))
        for k in tuple(virtual_keys) + tuple(method_keys):
            hold("tree", k not in tree, lambda: "virtual / instance-method field %s in the tree" % k)
        if virtual_keys:
            vt = cfg.to_tree(virtual=True)
            for k in virtual_keys:
                hold("tree", k in vt, "virtual=True did not include the virtual field")
            for k in method_keys:
                hold("tree", k not in vt, "instance method in the tree")
        fresh = schema(key_filename=KEYPATH)
        fresh.load_tree(tree)
        want, got = _norm(asdict(cfg)), _norm(asdict(fresh))
        hold("reload", _same(want, got), lambda: "reloaded configuration differs: %r -> %r (tree %r)" % (want, got, tree))
        # the same through the dumps/loads and save/load glue with an inverse-pair format
        doc = cfg.dumps(format="mem")
        again = schema(key_filename=KEYPATH)
        again.loads(doc, format="mem")
        hold("glue", _same(want, _norm(asdict(again))), "dumps/loads glue lost a value")
        cfg.save("/k/out.mem", format="mem")
        third = schema(key_filename=KEYPATH)
        third.load("/k/out.mem", format="mem")
        hold("glue", _same(want, _norm(asdict(third))), "save/load glue lost a value")
    return True


@obligation(prop="C02", sites=("tree", "reload", "glue"), encodes=ENC, stubs=("FakeFS", "MemFormat"),
            budget={"quick": 200, "thorough": 500},
            what="Int / Float / String / Bool / nested (depth 3) / config-type / dynamic fields with symbolic values "
                 "(|str|<=2, floats finite): to_tree is plain data and reloads into an equal configuration, also "
                 "through dumps/loads and save/load with an inverse-pair format")
def scalars_symbolic(i: Optional[int], f: Optional[float], s: Optional[str], b: Optional[bool], deep: int, dyn: int) -> bool:
    """
    pre: s is None or len(s) <= 2
    pre: f is None or -1e9 < f < 1e9
    post: _
    """
    t = Schema()
    t.v = IntField()
    schema = Schema(dynamic=True)
    # declared defaults are NOT None: a value set to None must still come back as None
    schema.i = IntField(default=7)
    schema.f = FloatField(default=1.5)
    schema.s = StringField(default="dflt")
    schema.b = BoolField(default=True)
    schema.sub.deep.x = IntField(default=1)
    schema.sub.deep.opt = StringField(default="o")
    schema.ct = make_type_nt(t, "T")
    schema.virt = VirtualField(lambda cfg: 42)
    instance_method(schema, "meth")(lambda cfg: 1)

    def fill(cfg):
        cfg.i, cfg.f, cfg.s, cfg.b = i, f, s, b
        cfg.sub.deep.x = deep
        cfg.sub.deep.opt = s
        cfg.ct.v = deep
        cfg.extra = dyn
    return _roundtrip(schema, fill, virtual_keys=("virt",), method_keys=("meth",))


@obligation(prop="C02", sites=("tree", "reload", "glue"), encodes=ENC + [
    "cincoconfig.fields.list_field.ListField.to_basic", "cincoconfig.fields.list_field.ListField.to_python",
    "cincoconfig.fields.dict_field.DictField.to_basic", "cincoconfig.fields.dict_field.DictField.to_python"],
            stubs=("FakeFS", "MemFormat"), budget={"quick": 480, "thorough": 900},
            what="typed lists and dicts: List(Int) / Dict(Str,Int) with symbolic contents (n<=2), List(Bytes), "
                 "Dict(Str,Bytes), List(Secure), List(Challenge), List(Schema with Bytes+Secure), List(List(Bytes)), "
                 "Dict(Str,List(Bytes hex)), List(Dict(Str,Challenge)), List(List(Secure)), unset and empty "
                 "containers: reload reproduces every item (binary / hashed / encrypted items included)")
def containers(n: int, x: int, y: int, vi: int, state: int) -> bool:
    """
    pre: 0 <= n <= 2 and 0 <= vi < 5 and 0 <= state <= 2
    post: _
    """
    bi = ti = vi
    blob, text = _pick(BYTES, bi), _pick(TEXTS, ti)
    item = Schema()
    item.raw = BytesField()
    item.sec = SecureField(method="xor")
    item.n = IntField(default=0)
    schema = Schema()
    schema.tl_int = ListField(IntField())
    schema.td_int = DictField(StringField(), IntField())
    schema.tl_bytes = ListField(BytesField())
    schema.tl_hex = ListField(BytesField(encoding="hex"))
    schema.td_bytes = DictField(StringField(), BytesField())
    schema.td_byteskey = DictField(BytesField(encoding="hex"), IntField())
    schema.tl_sec = ListField(SecureField(method="xor"))
    schema.tl_ch = ListField(ChallengeField("md5"))
    schema.tl_items = ListField(item)
    schema.untyped = ListField()
    schema.untyped_d = DictField()
    # typed containers NESTED in typed containers whose leaves have an on-disk form
    schema.ll_bytes = ListField(ListField(BytesField()))
    schema.dl_bytes = DictField(StringField(), ListField(BytesField(encoding="hex")))
    schema.ld_ch = ListField(DictField(StringField(), ChallengeField("md5")))
    schema.ll_sec = ListField(ListField(SecureField(method="xor")))

    def fill(cfg):
        if state == 0:
            return  # everything unset
        if state == 1:
            for k in ("tl_int", "tl_bytes", "tl_hex", "tl_sec", "tl_ch", "tl_items", "untyped", "ll_bytes", "ld_ch", "ll_sec"):
                cfg[k] = []
            cfg.td_int, cfg.td_bytes, cfg.untyped_d, cfg.td_byteskey, cfg.dl_bytes = {}, {}, {}, {}, {}
            return
        cfg.ll_bytes = [[blob, b"\xfe"], []]
        cfg.dl_bytes = {"k": [blob], "e": []}
        cfg.ld_ch = [{"u": text}]
        cfg.ll_sec = [[], [text, "pw2"]]
        cfg.tl_int = [x, y][:n]
        cfg.td_int = {k: v for k, v in (("a", x), ("b", y))[:n]}
        cfg.tl_bytes = [blob, b"\xff"]
        cfg.tl_hex = [blob]
        cfg.td_bytes = {"k": blob}
        cfg.td_byteskey = {blob: x, b"\x01\x02": y}
        cfg.tl_sec = [text, "pw"]
        cfg.tl_ch = [text]
        it1, it2 = item(), item()   # (a map given for an item is a *tree*: on-disk forms; objects carry values)
        it1.raw, it1.sec, it1.n = blob, text, x
        it2.raw, it2.sec = b"z", "s2"
        cfg.tl_items = [it1, it2]
        cfg.untyped = [x, [y], {"k": text}]
        cfg.untyped_d = {"k": [x], "j": text}
    if state != 2 and (n or x or y or bi or ti):
        skip("values unused")
    return _roundtrip(schema, fill)


@obligation(prop="C02", sites=("tree", "reload", "glue"), encodes=ENC, stubs=("FakeFS", "MemFormat"),
            budget={"quick": 120, "thorough": 300},
            what="Bytes (base64|hex), Challenge, Secure (xor, aes) scalar fields and nested secrets with values "
                 "from menus (empty, NUL, non-UTF-8, text that is itself valid base64, non-ASCII)")
def encoded_scalars(vi: int, use_aes: bool) -> bool:
    """
    pre: 0 <= vi < 5
    post: _
    """
    blob, text = _pick(BYTES, vi), _pick(TEXTS, vi)
    method = "aes" if use_aes else "xor"
    schema = Schema()
    schema.raw = BytesField()
    schema.hexraw = BytesField(encoding="hex")
    schema.ch = ChallengeField("sha256")
    schema.sec = SecureField(method=method)
    schema.sub.sec2 = SecureField(method=method)
    schema.sub.deep.sec3 = SecureField(method=method)

    def fill(cfg):
        cfg.raw, cfg.hexraw, cfg.ch, cfg.sec = blob, blob, text, text
        cfg.sub.sec2 = text
        cfg.sub.deep.sec3 = "deep-" + text
    return _roundtrip(schema, fill)


# --------------------------------------------------------------------------- the five real formats (concretised)
def _full_schema():
    item = Schema()
    item.raw = BytesField()
    item.sec = SecureField(method="xor")
    item.n = IntField(default=0)
    t = Schema()
    t.v = IntField(default=3)
    t.names = ListField(StringField(), default=lambda: ["n"])
    schema = Schema(dynamic=True)
    schema.i = IntField()
    schema.f = FloatField()
    schema.s = StringField()
    schema.b = BoolField()
    schema.none_s = StringField()
    schema.raw = BytesField()
    schema.ch = ChallengeField("md5")
    schema.sec = SecureField(method="xor")
    schema.sub.deep.sec3 = SecureField(method="aes")
    schema.sub.deep.x = IntField(default=1)
    schema.ct = make_type_nt(t, "T")
    schema.tl_int = ListField(IntField())
    schema.td_int = DictField(StringField(), IntField())
    schema.tl_bytes = ListField(BytesField())
    schema.tl_items = ListField(item)
    schema.tl_empty = ListField(IntField())
    schema.td_empty = DictField(StringField(), IntField())
    return schema


FORMATS = ("json", "yaml", "bson", "xml", "pickle")
INTS = (0, -1, 2 ** 40, 7)
FLOATS = (0.0, -2.5, 1e100, 3.0)
STRS = ("", "1", "true", "a<b>&\"c'", " padded ", "ünï", "line\nbreak")


COMBOS = ((0, 0, 0, 0), (1, 1, 1, 1), (2, 2, 2, 2), (3, 3, 3, 3), (1, 2, 4, 4), (0, 3, 5, 2), (2, 0, 6, 3))


def _real(fi: int, opt: bool, ii: int, fl: int, si: int, bi: int) -> bool:
    fmt = _pick(FORMATS, fi)
    iv, fv, sv, blob = _pick(INTS, ii), _pick(FLOATS, fl), _pick(STRS, si), _pick(BYTES, bi)
    kwargs = {}
    if opt:
        kwargs = {"json": {"pretty": False}, "yaml": {"root_key": "CONFIG"}, "xml": {"root_tag": "settings"}}.get(fmt, {})
        if not kwargs:
            skip("no options for this format")
    fs = FakeFS(files={KEYPATH: KEY}, dirs=["/k"])
    with fs.patched():
        schema = _full_schema()
        cfg = schema(key_filename=KEYPATH)
        cfg.i, cfg.f, cfg.s, cfg.b, cfg.raw, cfg.ch, cfg.sec = iv, fv, sv, True, blob, sv, sv
        cfg.sub.deep.sec3 = "deep"
        cfg.sub.deep.x = iv
        cfg.ct.v = iv
        cfg.tl_int = [iv, 1]
        cfg.td_int = {"a": iv}
        cfg.tl_bytes = [blob, b"\xff"]
        it1 = schema.tl_items.field()
        it1.raw, it1.sec, it1.n = blob, sv, iv
        cfg.tl_items = [it1]
        cfg.tl_empty = []
        cfg.td_empty = {}
        cfg.extra = [iv, sv]
        doc = cfg.dumps(format=fmt, **kwargs)
        hold("real", isinstance(doc, bytes), "dumps did not return bytes")
        fresh = schema(key_filename=KEYPATH)
        fresh.loads(doc, format=fmt, **kwargs)
        want, got = _norm(asdict(cfg)), _norm(asdict(fresh))
        if fmt == "xml" and (sv in ("", "line\nbreak", " padded ") or True):
            pass
        hold("real", _same(want, got), lambda: "%s round trip differs:\n %r\n %r" % (fmt, want, got))
    return True


def _mk_real(fi: int):
    @obligation(prop="C02", name="real_format_" + FORMATS[fi], group="real_formats", sites=("real",),
                encodes=ENC + ["cincoconfig.core.Config.dumps", "cincoconfig.core.Config.loads"],
                stubs=("FakeFS",), budget={"quick": 240, "thorough": 600},
                examples=({"opt": False, "vi": 1},),
                what="concretised cross-check: a configuration over every persistent field kind (scalars, binary, "
                     "hashed, encrypted xor+aes, nested depth 3, config type, typed lists/dicts incl. list of "
                     "configurations with binary+secret items, empty containers, dynamic field) with 7 value "
                     "combinations (solver-chosen selector) is written with the real %s format (with and without "
                     "its option) and loaded into a fresh configuration: equal (codec internals are third-party "
                     "code run concretely)" % FORMATS[fi])
    def ob(opt: bool, vi: int) -> bool:
        """
        pre: 0 <= vi < 7
        post: _
        """
        combo = _pick(COMBOS, vi)
        si = combo[2]
        if FORMATS[fi] == "xml" and si in (6,):
            skip("XML domain: strings of XML characters without carriage return; a line break inside a value is "
                 "rewritten by the pretty printer -> outside the statement's XML domain? (kept out conservatively)")
        return _real(fi, opt, combo[0], combo[1], si, combo[3])


for _fi in range(5):
    _mk_real(_fi)


@obligation(prop="C02", sites=("file",), encodes=["cincoconfig.core.Config.save", "cincoconfig.core.Config.load"],
            stubs=("FakeFS",), budget={"quick": 600, "thorough": 800},
            what="file route (save then load) for documents of every length residue: a string value padded to n "
                 "characters, n symbolic in 0..255, binary formats bson and pickle (codecs concrete, untraced)")
def file_route_every_length(n: int, use_pickle: bool) -> bool:
    """
    pre: 0 <= n <= 255
    post: _
    """
    from vf.hlib.stubs import untraced
    pad = "x" * n
    fmt = "pickle" if use_pickle else "bson"
    fs = FakeFS(files={KEYPATH: KEY}, dirs=["/k"])
    with fs.patched():
        with untraced():
            schema = Schema()
            schema.text = StringField(default="")
            schema.n = IntField(default=1)
            cfg = schema()
            cfg.text = pad
            cfg.save("/k/doc.bin", format=fmt)
            fresh = schema()
            try:
                fresh.load("/k/doc.bin", format=fmt)
                err = None
            except Exception as exc:  # noqa: BLE001
                err = exc
            ok = err is None and asdict(fresh) == asdict(cfg)
        hold("file", ok, lambda: "%s file with a %d-character value does not load back: %r" % (fmt, len(pad), err))
    return True


# --------------------------------------------------------------------------- fields that carry an environment name
@obligation(prop="C02", sites=("reload",), stubs=("FakeFS", "MemFormat", "FakeEnviron"), budget={"quick": 120, "thorough": 240},
            encodes=ENC + ["cincoconfig.core.Config.load_tree"],
            what="schemas with an environment prefix (every field gets a variable NAME) while the variables are unset "
                 "or defined but EMPTY (symbolic, per field): values that differ from the defaults, at the root, "
                 "nested and in list items, are reproduced by save + reload (an empty variable is no binding)")
def env_named_fields_reload(root_state: int, nested_state: int, x: int) -> bool:
    """
    pre: 0 <= root_state <= 1 and 0 <= nested_state <= 1 and 0 <= x <= 9
    post: _
    """
    from vf.hlib.stubs import fake_environ
    environ = {}
    if root_state == 1:
        environ["APP_PORT"] = ""
    if nested_state == 1:
        environ["APP_DB_HOST"] = ""
        environ["APP_TITLE"] = ""
    with fake_environ(environ):
        item = Schema()
        item.n = IntField(default=0)
        schema = Schema(env="APP")
        schema.port = IntField(default=80)
        schema.title = StringField(default="t")
        schema.db.host = StringField(default="localhost")
        schema.rows = ListField(item, default=lambda: [])

        def fill(cfg):
            cfg.port = 8000 + x
            cfg.title = "custom"
            cfg.db.host = "db.example"
            cfg.rows = [{"n": x}]
        return _roundtrip(schema, fill)
