"""C03 - secrets are stored only encrypted and decrypt with the configuration's key file."""
import base64
from typing import Optional

from cincoconfig import ListField, Schema, SecureField, StringField
from cincoconfig.core import Config
from cincoconfig.encryption import AesProvider, XorProvider

from vf.hlib import hold, known, obligation, skip
from vf.hlib.stubs import FakeFS, MemStore, is_plain_data, make_type_nt

ENC = ["cincoconfig.fields.secure_field.SecureField.to_basic", "cincoconfig.fields.secure_field.SecureField.to_python",
       "cincoconfig.core.Config._keyfile", "cincoconfig.encryption.KeyFile.encrypt", "cincoconfig.encryption.KeyFile.decrypt"]
ROOTK, CTK, SUBK = "/k/root.key", "/k/ct.key", "/k/sub.key"
DEFAULTK = Config.DEFAULT_CINCOKEY_FILEPATH
# (valid 32-byte keys whose LAST byte is a line feed / carriage return: key files are binary, nothing is trimmed)
KEYS = {ROOTK: bytes([11]) * 31 + b"\n", CTK: bytes([22]) * 32, SUBK: bytes([33]) * 31 + b"\r", DEFAULTK: bytes([44]) * 32}
PLAIN = {"seclist.0": "l0-secret", "seclist.1": "l1-secret", "pw": "r-secret", "sub.pw": "s-secret", "sub.deep.pw": "d-sécret", "ct.pw": "c-secret",
         "items.0": "i0-secret", "items.1": "i1-secret", "titems.0": "t0-secret"}
METHODS = ("xor", "aes", "best")


def _schema(method: str, ct_named: bool):
    item = Schema()
    item.pw = SecureField(method=method)
    item.label = StringField(default="l")
    t = Schema()
    t.pw = SecureField(method=method)
    T = make_type_nt(t, "T", key_filename=CTK if ct_named else None)
    schema = Schema()
    schema.pw = SecureField(method=method)
    schema.sub.pw = SecureField(method=method)
    schema.sub.deep.pw = SecureField(method=method)
    schema.ct = T
    schema.items = ListField(item, default=lambda: [])
    schema.titems = ListField(T, default=lambda: [])
    schema.seclist = ListField(SecureField(method=method), default=lambda: [])
    schema.sub.seclist2 = ListField(SecureField(method=method), default=lambda: [])
    return schema, item, T


def _plain_tree():
    return {"pw": PLAIN["pw"], "seclist": [PLAIN["seclist.0"]],
            "sub": {"pw": PLAIN["sub.pw"], "deep": {"pw": PLAIN["sub.deep.pw"]}, "seclist2": [PLAIN["seclist.1"]]},
            "ct": {"pw": PLAIN["ct.pw"]},
            "items": [{"pw": PLAIN["items.0"]}, {"pw": PLAIN["items.1"]}],
            "titems": [{"pw": PLAIN["titems.0"]}]}


def _read(cfg: Config):
    return {"seclist.0": cfg.seclist[0], "seclist.1": cfg.sub.seclist2[0], "pw": cfg.pw, "sub.pw": cfg.sub.pw, "sub.deep.pw": cfg.sub.deep.pw, "ct.pw": cfg.ct.pw,
            "items.0": cfg.items[0].pw, "items.1": cfg.items[1].pw, "titems.0": cfg.titems[0].pw}


def _leaves(tree: dict):
    return {"seclist.0": tree["seclist"][0], "seclist.1": tree["sub"]["seclist2"][0],
            "pw": tree["pw"], "sub.pw": tree["sub"]["pw"], "sub.deep.pw": tree["sub"]["deep"]["pw"],
            "ct.pw": tree["ct"]["pw"], "items.0": tree["items"][0]["pw"], "items.1": tree["items"][1]["pw"],
            "titems.0": tree["titems"][0]["pw"]}


def _decrypt(leaf: dict, key: bytes) -> Optional[str]:
    raw = base64.b64decode(leaf["ciphertext"])
    try:
        if leaf["method"] == "xor":
            return XorProvider(key).decrypt(raw).decode()
        return AesProvider(key).decrypt(raw).decode()
    except Exception:  # noqa: BLE001
        return None


def _populate(cfg: Config, item, T, build_route: int, item_route: int):
    if build_route == 0:  # attribute assignment on the default sub-configurations
        cfg.pw = PLAIN["pw"]
        cfg.seclist = [PLAIN["seclist.0"]]
        cfg.sub.seclist2.append(PLAIN["seclist.1"])
        cfg.sub.pw = PLAIN["sub.pw"]
        cfg.sub.deep.pw = PLAIN["sub.deep.pw"]
        cfg.ct.pw = PLAIN["ct.pw"]
    elif build_route == 1:  # maps assigned to sub-configurations / config type
        cfg.pw = PLAIN["pw"]
        cfg.seclist = [PLAIN["seclist.0"]]
        cfg.sub = {"pw": PLAIN["sub.pw"], "deep": {"pw": PLAIN["sub.deep.pw"]}, "seclist2": [PLAIN["seclist.1"]]}
        cfg.ct = {"pw": PLAIN["ct.pw"]}
    else:  # everything through load_tree (plaintext leaves are taken as given)
        cfg.load_tree({k: v for k, v in _plain_tree().items() if k not in ("items", "titems")})
    if item_route == 0:  # whole-list assignment from maps
        cfg.items = [{"pw": PLAIN["items.0"]}, {"pw": PLAIN["items.1"]}]
        cfg.titems = [{"pw": PLAIN["titems.0"]}]
    elif item_route == 1:  # append a map, then a configuration object
        cfg.items.append({"pw": PLAIN["items.0"]})
        it = item()
        it.pw = PLAIN["items.1"]
        cfg.items.append(it)
        cfg.titems.append(T(pw=PLAIN["titems.0"]))
    else:  # load_tree
        cfg.load_tree({"items": _plain_tree()["items"], "titems": _plain_tree()["titems"]})


def _mk(method: str, build_route: int):
    @obligation(prop="C03", name="secrets_%s_b%d" % (method, build_route), group="secrets", sites=("tree", "files", "reload"),
                encodes=ENC, stubs=("FakeFS", "MemFormat"), budget={"quick": 300, "thorough": 700},
                examples=({"root_named": True, "ct_named": True, "item_route": 0, "load_route": 1,
                           "default_exists": True},),
                what="method %s; secrets at the root, depth 2 and 3, in a config type and in list items (plain and "
                     "config-type items); symbolic: who names a key file (root / config type), how sub-configurations "
                     "came into being (default + attribute, map assignment, load_tree; items by list assignment, "
                     "append of map/object, load), reload route (load_tree / loads), default key file present or "
                     "absent. Every serialised secret is {method in aes|xor, ciphertext} that decrypts under the key "
                     "of the nearest ancestor naming one (else the default) and under no other listed key; only "
                     "those key files are opened/created; a new configuration object reloads every plaintext" % method)
    def ob(root_named: bool, ct_named: bool, item_route: int, load_route: int, default_exists: bool) -> bool:
        """
        pre: 0 <= item_route <= 2 and 0 <= load_route <= 1
        post: _
        """
        if method != "xor" and (item_route or not default_exists):
            skip("real AES runs slowly under the tracer: aes/best explore the naming x creation-route dimensions only")
        files = {ROOTK: KEYS[ROOTK], CTK: KEYS[CTK], SUBK: KEYS[SUBK]}
        if default_exists:
            files[DEFAULTK] = KEYS[DEFAULTK]
        fs = FakeFS(files=files, dirs=["/k", DEFAULTK.rsplit("/", 1)[0] or "/"])
        mem = MemStore()
        base_key = ROOTK if root_named else DEFAULTK
        expect = {loc: base_key for loc in PLAIN}
        if ct_named:
            expect["ct.pw"] = CTK
            expect["titems.0"] = CTK
        with fs.patched(), mem.registered():
            schema, item, T = _schema(method, ct_named)
            cfg = schema(key_filename=ROOTK if root_named else None)
            _populate(cfg, item, T, build_route, item_route)
            hold("tree", _read(cfg) == PLAIN, "in-memory values differ from what was assigned")
            opens0 = len(fs.opens)
            tree = cfg.to_tree()
            hold("tree", is_plain_data(tree), "tree is not plain data")
            leaves = _leaves(tree)
            for loc, leaf in leaves.items():
                hold("tree", type(leaf) is dict and sorted(leaf) == ["ciphertext", "method"],
                     lambda: "%s serialised as %r" % (loc, leaf))
                hold("tree", leaf["method"] in ("aes", "xor") and leaf["method"] == ("xor" if method == "xor" else "aes"),
                     lambda: "%s: recorded method %r" % (loc, leaf["method"]))
                hold("tree", PLAIN[loc] not in leaf["ciphertext"]
                     and PLAIN[loc].encode() not in base64.b64decode(leaf["ciphertext"]),
                     lambda: "%s: plaintext inside the serialised value" % loc)
                keypath = expect[loc]
                key = fs.files.get(keypath)
                hold("tree", key is not None and _decrypt(leaf, key) == PLAIN[loc],
                     lambda: "%s is not encrypted under %s (nearest ancestor naming a key file)" % (loc, keypath))
            allowed = set(expect.values())
            used = set(p for p, _ in fs.opens[opens0:])
            hold("files", used <= allowed, lambda: "serialising opened %r, allowed %r" % (sorted(used), sorted(allowed)))
            hold("files", set(fs.writes) <= ({DEFAULTK} if (not default_exists and not root_named) else set()),
                 lambda: "key files created/written: %r" % (fs.writes,))
            # ---- a new configuration object, new session
            schema2, item2, T2 = _schema(method, ct_named)
            cfg2 = schema2(key_filename=ROOTK if root_named else None)
            opens1, writes1 = len(fs.opens), len(fs.writes)
            if load_route == 0:
                cfg2.load_tree(tree)
            else:
                cfg2.loads(mem.put(tree), format="mem")
            hold("reload", _read(cfg2) == PLAIN, lambda: "reloaded secrets %r" % (_read(cfg2),))
            used2 = set(p for p, _ in fs.opens[opens1:])
            hold("files", used2 <= allowed, lambda: "loading opened %r, allowed %r" % (sorted(used2), sorted(allowed)))
            hold("files", len(fs.writes) == writes1, "loading created or wrote a key file")
        return True


for _m in METHODS:
    for _b in range(3):
        _mk(_m, _b)


def _rekey_same(used_before: bool, mi: int) -> bool:
    """the sub-configuration is given the key file it currently inherits; afterwards the root gets another one:
    the sub-configuration names a key file, so it (and what is below it) must stay on that file"""
    method = "xor" if mi == 0 else "aes"
    fs = FakeFS(files=dict(KEYS), dirs=["/k", DEFAULTK.rsplit("/", 1)[0] or "/"])
    with fs.patched():
        schema = Schema()
        schema.pw = SecureField(method=method)
        schema.sub.pw = SecureField(method=method)
        schema.sub.deep.pw = SecureField(method=method)
        cfg = schema(key_filename=ROOTK)
        cfg.pw, cfg.sub.pw, cfg.sub.deep.pw = "r-secret", "s-secret", "d-secret"
        if used_before:
            cfg.to_tree()
        cfg.sub._key_filename = ROOTK      # the file it inherits right now
        cfg._key_filename = CTK            # the root moves to another file
        tree = cfg.to_tree()
        for leaf, keypath, text in ((tree["pw"], CTK, "r-secret"), (tree["sub"]["pw"], ROOTK, "s-secret"),
                                    (tree["sub"]["deep"]["pw"], ROOTK, "d-secret")):
            hold("rekey", _decrypt(leaf, KEYS[keypath]) == text,
                 lambda: "secret %r is not encrypted under %s" % (text, keypath))
    return True


@obligation(prop="C03", sites=("rekey",), stubs=("FakeFS",),
            encodes=["cincoconfig.fields.secure_field.SecureField.to_basic", "cincoconfig.core.Config._keyfile"], budget={"quick": 120, "thorough": 300},
            what="key-file assignment to the root or to a sub-configuration, before or after a first "
                 "serialisation, or after the secrets were LOADED under the previous key and left unmodified: afterwards every secret is encrypted under the nearest ancestor that names a key "
                 "file at that moment")
def rekey_after_use(used_before: int, assign_root: bool, assign_sub: bool, mi: int, sub_same_then_root: bool) -> bool:
    """
    pre: 0 <= mi <= 1 and 0 <= used_before <= 2
    post: _
    """
    if sub_same_then_root:
        if used_before == 2:
            skip("loaded-first: explored with independent assignments")
        return _rekey_same(used_before == 1, mi)
    method = "xor" if mi == 0 else "aes"
    fs = FakeFS(files=dict(KEYS), dirs=["/k", DEFAULTK.rsplit("/", 1)[0] or "/"])
    with fs.patched():
        schema = Schema()
        schema.pw = SecureField(method=method)
        schema.sub.pw = SecureField(method=method)
        schema.sub.deep.pw = SecureField(method=method)
        cfg = schema()
        if used_before == 2:
            # the secrets ARRIVE by loading a tree that was encrypted under the key in force so far (the default
            # key) and are never modified afterwards
            donor = schema()
            donor.pw, donor.sub.pw, donor.sub.deep.pw = "r-secret", "s-secret", "d-secret"
            cfg.load_tree(donor.to_tree())
        else:
            cfg.pw, cfg.sub.pw, cfg.sub.deep.pw = "r-secret", "s-secret", "d-secret"
        if used_before == 1:
            cfg.to_tree()
        if assign_root:
            cfg._key_filename = ROOTK
        if assign_sub:
            cfg.sub._key_filename = SUBK
        tree = cfg.to_tree()
        root_key = ROOTK if assign_root else DEFAULTK
        sub_key = SUBK if assign_sub else root_key
        for leaf, keypath, text in ((tree["pw"], root_key, "r-secret"), (tree["sub"]["pw"], sub_key, "s-secret"),
                                    (tree["sub"]["deep"]["pw"], sub_key, "d-secret")):
            hold("rekey", _decrypt(leaf, KEYS[keypath]) == text,
                 lambda: "secret %r is not encrypted under %s" % (text, keypath))
    return True


@obligation(prop="C03", sites=("files",), stubs=("FakeFS", "MemFormat"),
            encodes=["cincoconfig.fields.secure_field.SecureField.to_basic", "cincoconfig.core.Config._keyfile"],
            budget={"quick": 200, "thorough": 400},
            what="every secret lives in configurations that name their OWN key file (config-type field and "
                 "config-type list items); the root names none or another file: saving and loading (dumps/loads, "
                 "to_tree/load_tree) never open or create the root's / the default key file")
def foreign_key_never_touched(root_named: bool, route: int, default_exists: bool, mi: int) -> bool:
    """
    pre: 0 <= route <= 1 and 0 <= mi <= 1
    post: _
    """
    method = "xor" if mi == 0 else "aes"
    files = {ROOTK: KEYS[ROOTK], CTK: KEYS[CTK]}
    if default_exists:
        files[DEFAULTK] = KEYS[DEFAULTK]
    fs = FakeFS(files=files, dirs=["/k", DEFAULTK.rsplit("/", 1)[0] or "/"])
    mem = MemStore()
    with fs.patched(), mem.registered():
        t = Schema()
        t.pw = SecureField(method=method)
        T = make_type_nt(t, "T", key_filename=CTK)
        schema = Schema()
        schema.title = StringField(default="no secret here")
        schema.ct = T
        schema.titems = ListField(T, default=lambda: [])
        cfg = schema(key_filename=ROOTK if root_named else None)
        cfg.ct.pw = "c-secret"
        cfg.titems = [{"pw": "t-secret"}]
        opens0 = len(fs.opens)
        if route == 0:
            tree = cfg.to_tree()
            fresh = schema(key_filename=ROOTK if root_named else None)
            fresh.load_tree(tree)
        else:
            doc = cfg.dumps(format="mem")
            fresh = schema(key_filename=ROOTK if root_named else None)
            fresh.loads(doc, format="mem")
        hold("files", fresh.ct.pw == "c-secret" and fresh.titems[0].pw == "t-secret", "secrets not reloaded")
        used = set(p for p, _ in fs.opens[opens0:])
        hold("files", used <= {CTK}, lambda: "key files opened: %r, only %r holds a key that is needed" % (sorted(used), CTK))
        hold("files", not fs.writes, lambda: "key files created/written: %r" % (fs.writes,))
    return True


# --------------------------------------------------------------------------- built on its own, attached afterwards
@obligation(prop="C03", sites=("attached",), stubs=("FakeFS",), budget={"quick": 120, "thorough": 300},
            encodes=["cincoconfig.core.Config._keyfile", "cincoconfig.fields.secure_field.SecureField.to_basic"],
            what="a sub-configuration or list item that was built on its own (no parent) and possibly already "
                 "serialised once (which made it use the default key file) is attached to a configuration that names "
                 "a key file: from then on its secret is encrypted under that key file, and the saved tree loads back "
                 "in a new configuration naming the same key file")
def standalone_then_attached(where: int, used_alone: int, mi: int) -> bool:
    """
    pre: 0 <= where <= 2 and 0 <= used_alone <= 2 and 0 <= mi <= 1
    post: _
    """
    method = "xor" if mi == 0 else "aes"
    fs = FakeFS(files=dict(KEYS), dirs=["/k", DEFAULTK.rsplit("/", 1)[0] or "/"])
    with fs.patched():
        part = Schema()
        part.pw = SecureField(method=method)
        schema = Schema()
        schema.sub = part
        schema.items = ListField(part, default=lambda: [])
        piece = part()                    # stand-alone: no parent, no key file named
        piece.pw = "p-secret"
        if used_alone == 1:
            piece.to_tree()               # serialised on its own: the default key file is the right one HERE
        elif used_alone == 2:
            piece.dumps(format="json")
        root = schema(key_filename=ROOTK)
        if where == 0:
            root.sub = piece
            leaf = lambda t: t["sub"]["pw"]      # noqa: E731
        elif where == 1:
            root.items = [piece]
            leaf = lambda t: t["items"][0]["pw"]  # noqa: E731
        else:
            root.items.append(piece)
            leaf = lambda t: t["items"][0]["pw"]  # noqa: E731
        tree = root.to_tree()
        hold("attached", _decrypt(leaf(tree), KEYS[ROOTK]) == "p-secret",
             "after being attached, the part's secret is not encrypted under the key file its parent names")
        fresh = schema(key_filename=ROOTK)
        fresh.load_tree(tree)
        got = fresh.sub.pw if where == 0 else fresh.items[0].pw
        hold("attached", got == "p-secret", "the saved tree does not load back under the parent's key file")
    return True


# --------------------------------------------------------------------------- a sub-configuration's own key file and loads
@obligation(prop="C03", sites=("subkey",), stubs=("FakeFS", "MemFormat"), budget={"quick": 120, "thorough": 300},
            encodes=["cincoconfig.core.Config._set_value", "cincoconfig.core.Config._keyfile",
                     "cincoconfig.fields.secure_field.SecureField.to_python"],
            what="a key file assigned to a SUB-configuration (the root naming another one or none): the saved tree / "
                 "document carries the sub-configuration's secrets under that key file, a configuration set up the "
                 "same way loads them back (tree and document route), only the two named key files are opened, and "
                 "after the load the sub-configuration still resolves to its own key file (a second save agrees)")
def subconfig_keyfile_survives_load(root_named: bool, route: int, mi: int, deep: bool) -> bool:
    """
    pre: 0 <= route <= 1 and 0 <= mi <= 1
    post: _
    """
    method = "xor" if mi == 0 else "aes"
    fs = FakeFS(files=dict(KEYS), dirs=["/k", DEFAULTK.rsplit("/", 1)[0] or "/"])
    mem = MemStore()
    with fs.patched(), mem.registered():
        schema = Schema()
        schema.pw = SecureField(method=method)
        schema.sub.pw = SecureField(method=method)
        schema.sub.deep.pw = SecureField(method=method)

        def build():
            cfg = schema(key_filename=ROOTK if root_named else None)
            (cfg.sub.deep if deep else cfg.sub)._key_filename = SUBK
            return cfg
        src = build()
        src.pw, src.sub.pw, src.sub.deep.pw = "r-secret", "s-secret", "d-secret"
        tree = src.to_tree()
        root_key = ROOTK if root_named else DEFAULTK
        mid_key = root_key if deep else SUBK
        for leaf, keypath, text in ((tree["pw"], root_key, "r-secret"), (tree["sub"]["pw"], mid_key, "s-secret"),
                                    (tree["sub"]["deep"]["pw"], SUBK, "d-secret")):
            hold("subkey", _decrypt(leaf, KEYS[keypath]) == text, lambda: "secret %r not under %s" % (text, keypath))
        fresh = build()
        opens0 = len(fs.opens)
        try:
            if route == 0:
                fresh.load_tree(tree)
            else:
                fresh.loads(src.dumps(format="mem"), format="mem")
            err = None
        except Exception as exc:  # noqa: BLE001
            err = exc
        hold("subkey", err is None, lambda: "a configuration set up the same way cannot load the tree back: %r" % (err,))
        hold("subkey", (fresh.pw, fresh.sub.pw, fresh.sub.deep.pw) == ("r-secret", "s-secret", "d-secret"), "plaintexts differ")
        hold("subkey", set(p for p, _ in fs.opens[opens0:]) <= {root_key, SUBK}, "another key file was opened by the load")
        again = fresh.to_tree()
        hold("subkey", _decrypt(again["sub"]["deep"]["pw"], KEYS[SUBK]) == "d-secret"
             and _decrypt(again["sub"]["pw"], KEYS[mid_key]) == "s-secret",
             "after the load the sub-configuration no longer uses the key file that was assigned to it")
    return True
