"""C05 - Engine SMT kernels: regex language inclusion (K-regex) and IEEE / integer bound exactness (K-fp)."""
import base64
import pickle
import re
from typing import Optional

from cincoconfig import ApplicationModeField, FloatField, HostnameField, IntField, Schema
from cincoconfig.fields.number_field import NumberField

from vf.hlib import TIER, Violated, obligation

MAXLEN = 20 if TIER == "quick" else 64


def _pack(d):
    return base64.b64encode(pickle.dumps(d)).decode()


def _cex(tally, args, note):
    return {"status": "refuted", "queries": tally["q"], "solver_s": round(tally["s"], 3),
            "args_b64": _pack(args), "args_repr": {k: repr(v) for k, v in args.items()},
            "messages": [{"state": "SMT_SAT", "message": note}]}


# --------------------------------------------------------------------------- K-regex
def _hostname_accepts(s: str) -> bool:
    try:
        HostnameField(allow_ipv4=False).validate(Schema()(), s)
        return True
    except ValueError:
        return False


def replay_hostname(s: str) -> bool:
    """declared: a DNS-looking name [a-zA-Z0-9][a-zA-Z0-9.-]+ or a NetBIOS name of 1..15 listed characters"""
    dns = re.fullmatch(r"[a-zA-Z0-9][a-zA-Z0-9.\-]+", s) is not None
    nb = re.fullmatch(r"[\w!@#$%^()\-'{}\.~]{1,15}", s) is not None
    if _hostname_accepts(s) and not (dns or nb):
        raise Violated("HostnameField accepts %r, which is neither a DNS-looking nor a NetBIOS name" % (s,))
    return True


def replay_mode(s: str) -> bool:
    try:
        ApplicationModeField(modes=[s])
    except TypeError:
        return True
    if re.fullmatch(r"[a-zA-Z0-9_]+", s) is None:
        raise Violated("ApplicationModeField accepts mode name %r (not a valid identifier-like name)" % (s,))
    return True


def _regex_inclusion(patterns, declared, replay, what, tier):
    import time

    import z3
    from vf.smt import regexlang as rl
    from vf.smt.cross import cvc5_check

    tally = {"q": 0, "s": 0.0}
    # translator validation on concrete literals (from the repo's tests and boundary cases)
    samples = ["a", "ab", "a-b.c", "-ab", "host_1", "h!@#$%^()-'{}.~", "x" * 15, "x" * 16, "he llo", "ab\n", "a\n",
               "@\n", "", "\n", "a.b\n\n", "1.2.3.4x", "$hello", ">hello", "hel-lo", "production"]
    accepted_re = z3.Union(*[rl.match_language(p) for p in patterns]) if len(patterns) > 1 else rl.match_language(patterns[0])
    s = z3.String("s")
    for lit in samples:
        real = any(re.compile(p).match(lit) for p in patterns)
        sol = z3.Solver()
        sol.add(z3.InRe(z3.StringVal(lit), accepted_re))
        enc = str(sol.check()) == "sat"
        tally["q"] += 1
        if real != enc:
            return {"status": "error", "error": "regex translator disagrees with re.match on %r (real %s, encoding %s)" % (lit, real, enc)}
    declared_re = z3.Union(*[rl.fullmatch_language(p) for p in declared]) if len(declared) > 1 else rl.fullmatch_language(declared[0])
    sol = z3.Solver()
    sol.set("timeout", 120000)
    sol.add(z3.Length(s) <= MAXLEN)
    sol.add(z3.InRe(s, z3.Star(rl.any_char())))
    sol.add(z3.InRe(s, accepted_re))
    # premise satisfiable (vacuity)
    t0 = time.perf_counter()
    r0 = str(sol.check())
    tally["q"] += 1
    if r0 != "sat":
        return {"status": "error", "error": "accepted language empty?! (%s)" % r0}
    sol.add(z3.Not(z3.InRe(s, declared_re)))
    r = str(sol.check())
    tally["q"] += 1
    tally["s"] += time.perf_counter() - t0
    if r == "sat":
        wit = rl.model_string(sol.model(), s)
        return _cex(tally, {"s": wit}, "%s: accepted but not declared: %r" % (what, wit))
    if r != "unsat":
        return {"status": "unknown", "error": "z3: %s" % r, "queries": tally["q"], "solver_s": tally["s"]}
    extra = {"max_len": MAXLEN, "alphabet": "U+0000..U+007F", "patterns": list(patterns)}
    if tier == "thorough":
        r2 = cvc5_check(sol.to_smt2(), 300, extra=("--strings-exp",))
        extra["cvc5"] = r2
        if r2 not in ("unsat", "unknown"):
            return {"status": "error", "error": "solver disagreement: z3 unsat, cvc5 %s" % r2}
    return {"status": "confirmed", "paths": tally["q"], "confirmed_paths": 1, "queries": tally["q"],
            "solver_s": round(tally["s"], 3), "smt": extra, "reached": {"end": 1}}


@obligation(prop="C05", engine="smt", replay_fn=replay_hostname, budget={"quick": 200, "thorough": 600},
            encodes=["cincoconfig.fields.net_field.HostnameField.HOSTNAME_REGEX",
                     "cincoconfig.fields.net_field.HostnameField.NETBIOS_REGEX"],
            what="language inclusion: every string (ASCII, |s|<=20 quick / 64 thorough) that re.match accepts for "
                 "HOSTNAME_REGEX or NETBIOS_REGEX (Python semantics incl. `$` before a final newline) is a whole-"
                 "string DNS-looking or NetBIOS name")
def hostname_regex_inclusion(tier: str, budget: float) -> dict:
    """
    pre: alphabet U+0000..U+007F; |s| <= 20 (quick) / 64 (thorough)
    """
    pats = (HostnameField.HOSTNAME_REGEX.pattern, HostnameField.NETBIOS_REGEX.pattern)
    return _regex_inclusion(pats, (r"[a-zA-Z0-9][a-zA-Z0-9.\-]+", r"[\w!@#$%^()\-'{}\.~]{1,15}"),
                            replay_hostname, "hostname", tier)


@obligation(prop="C05", engine="smt", replay_fn=replay_mode, budget={"quick": 200, "thorough": 600},
            encodes=["cincoconfig.fields.string_field.ApplicationModeField.HELPER_MODE_PATTERN"],
            what="language inclusion: every mode name accepted by HELPER_MODE_PATTERN (re.match semantics) consists "
                 "only of [a-zA-Z0-9_] (so the generated is_<mode>_mode helper is a valid attribute name)")
def mode_regex_inclusion(tier: str, budget: float) -> dict:
    """
    pre: alphabet U+0000..U+007F; |s| <= 20 (quick) / 64 (thorough)
    """
    return _regex_inclusion((ApplicationModeField.HELPER_MODE_PATTERN.pattern,), (r"[a-zA-Z0-9_]+",),
                            replay_mode, "mode name", tier)


# --------------------------------------------------------------------------- K-fp
def replay_bounds(kind: str, lo, hi, v) -> bool:
    field = (FloatField if kind == "float" else IntField)(min=lo, max=hi)
    want = (lo is None or lo <= v) and (hi is None or v <= hi)
    try:
        field.validate(Schema()(), v)
        got = True
    except ValueError:
        got = False
    if got != want:
        raise Violated("%sField(min=%r, max=%r).validate(%r): accepted=%s, in bounds=%s" % (kind, lo, hi, v, got, want))
    return True


def _bounds(kind: str, tier: str) -> dict:
    import math
    import time

    import z3
    from vf.smt import fpbounds as fb
    from vf.smt.cross import cvc5_check

    tally = {"q": 0, "s": 0.0}
    ctx, accepted, used = fb.accepted_formula(NumberField._validate, kind)
    inb = fb.in_bounds(ctx)

    def val(x):
        if kind == "float":
            return z3.FPVal(x, z3.Float64())
        return z3.IntVal(x)

    # translator validation against the real function on literals (incl. the repo's own test values)
    lits = [(None, None, 5), (1, None, 0), (1, None, 1), (None, 10, 11), (None, 10, 10), (0, 100, 50), (3, 3, 3)]
    if kind == "float":
        lits += [(0.0, None, float("nan")), (None, 1.0, float("inf")), (-0.0, 0.0, 0.0), (float("-inf"), None, -1e308),
                 (None, None, float("nan")), (1.5, 2.5, 2.5000000000000004)]
    for lo, hi, v in lits:
        if kind == "float":
            lo, hi, v = (None if lo is None else float(lo)), (None if hi is None else float(hi)), float(v)
        field = (FloatField if kind == "float" else IntField)(min=lo, max=hi)
        try:
            field.validate(Schema()(), v)
            real = True
        except ValueError:
            real = False
        sol = z3.Solver()
        sol.add(ctx.has_min == (lo is not None), ctx.has_max == (hi is not None), ctx.num == val(v))
        if lo is not None:
            sol.add(ctx.min == val(lo))
        if hi is not None:
            sol.add(ctx.max == val(hi))
        sol.add(accepted)
        enc = str(sol.check()) == "sat"
        tally["q"] += 1
        if enc != real:
            return {"status": "error", "error": "K-fp translation disagrees with the real field on (%r,%r,%r): real %s enc %s" % (lo, hi, v, real, enc)}
    smt2 = []
    for name, formula in (("accepted-but-outside", z3.And(accepted, z3.Not(inb))),
                          ("inside-but-rejected", z3.And(z3.Not(accepted), inb))):
        sol = z3.Solver()
        sol.set("timeout", 300000)
        sol.add(formula)
        t0 = time.perf_counter()
        r = str(sol.check())
        tally["s"] += time.perf_counter() - t0
        tally["q"] += 1
        smt2.append(sol.to_smt2())
        if r == "sat":
            m = sol.model()

            def get(term, flag=None):
                if flag is not None and not z3.is_true(m.eval(flag, model_completion=True)):
                    return None
                v = m.eval(term, model_completion=True)
                if kind == "float":
                    if z3.fpIsNaN(v) is not None and z3.is_true(z3.simplify(z3.fpIsNaN(v))):
                        return float("nan")
                    if z3.is_true(z3.simplify(z3.fpIsInf(v))):
                        return float("-inf") if z3.is_true(z3.simplify(z3.fpIsNegative(v))) else float("inf")
                    return float(eval(str(z3.simplify(z3.fpToReal(v)).as_fraction()))) if False else float(z3.simplify(z3.fpToReal(v)).as_fraction())
                return v.as_long()
            args = {"kind": kind, "lo": get(ctx.min, ctx.has_min), "hi": get(ctx.max, ctx.has_max), "v": get(ctx.num)}
            return _cex(tally, args, name)
        if r != "unsat":
            return {"status": "unknown", "error": "z3 %s on %s" % (r, name)}
    extra = {"statements_translated": used, "theory": "QF_FP Float64" if kind == "float" else "QF_LIA"}
    if tier == "thorough":
        res = [cvc5_check(s, 300) for s in smt2]
        extra["cvc5"] = res
        if any(r == "sat" or r.startswith("error") for r in res):
            return {"status": "error", "error": "solver disagreement: z3 unsat, cvc5 %s" % res}
    return {"status": "confirmed", "paths": tally["q"], "confirmed_paths": 2, "queries": tally["q"],
            "solver_s": round(tally["s"], 3), "smt": extra, "reached": {"end": 2}}


@obligation(prop="C05", engine="smt", replay_fn=replay_bounds, budget={"quick": 200, "thorough": 700},
            encodes=["cincoconfig.fields.number_field.NumberField._validate"],
            what="IEEE-754 exactness of the bound block of NumberField._validate for FloatField: for all Float64 "
                 "value/min/max incl. NaN, +-inf, -0.0: returns <=> (min <= v <= max) (both directions unsat)")
def float_bounds_ieee(tier: str, budget: float) -> dict:
    """
    pre: all Float64 values for v, min, max; each bound present or absent
    """
    return _bounds("float", tier)


@obligation(prop="C05", engine="smt", replay_fn=replay_bounds, budget={"quick": 100, "thorough": 300},
            encodes=["cincoconfig.fields.number_field.NumberField._validate"],
            what="exactness of the bound block of NumberField._validate for IntField over unbounded integers")
def int_bounds_lia(tier: str, budget: float) -> dict:
    """
    pre: all mathematical integers for v, min, max; each bound present or absent
    """
    return _bounds("int", tier)
