"""C09 - challenge fields keep only a salted hash that verifies exactly the secret."""
import contextlib
from typing import Optional
from unittest import mock

from cincoconfig import ChallengeField, IntField, Schema
from cincoconfig.fields import secure_field as sfmod
from cincoconfig.fields.secure_field import DigestValue

from vf.hlib import REPLAY, hold, obligation, skip
from vf.hlib.stubs import Urandom, bytes_of, ideal_hashes, is_plain_data

ENC = ["cincoconfig.fields.secure_field.DigestValue.create", "cincoconfig.fields.secure_field.DigestValue.challenge",
       "cincoconfig.fields.secure_field.ChallengeField._validate", "cincoconfig.fields.secure_field.ChallengeField.to_basic",
       "cincoconfig.fields.secure_field.ChallengeField.to_python"]
ALGOS = (("md5", 16), ("sha1", 20), ("sha224", 28), ("sha256", 32), ("sha384", 48), ("sha512", 64))


class TokenB64:
    """base64 replaced by an inverse pair over opaque tokens (the codec is C code; what is checked is which
    bytes the field hands to it and gets back).  In replay: real base64."""

    def __init__(self):
        self.table = {}

    def b64encode(self, data):
        tok = ("tok%d" % len(self.table)).encode()
        self.table[tok] = data
        return tok

    def b64decode(self, text):
        if isinstance(text, str):
            text = text.encode()
        if text not in self.table:
            import binascii
            raise binascii.Error("not a token")
        return self.table[text]


@contextlib.contextmanager
def token_b64():
    if REPLAY:
        yield None
        return
    tb = TokenB64()
    with mock.patch.object(sfmod, "base64", tb):
        yield tb


def _mk(algo: str, size: int):
    @obligation(prop="C09", name="challenge_" + algo, group="challenge", sites=("stored", "verify", "tree"),
                encodes=ENC, stubs=("IdealHash", "urandom", "base64 token pair"),
                budget={"quick": 240, "thorough": 600},
                what="ChallengeField(%s): assigning p (bytes, |p|<=2, contents symbolic) stores only salt = the one urandom(%d) output "
                     "and digest = H(salt+p); challenge(p) succeeds, challenge(q) fails for q != p; a second "
                     "assignment draws a new salt; to_tree leaves are exactly the encoded salt and digest; "
                     "load_tree(to_tree()) reproduces them" % (algo, size))
    def ob(np: int, nq: int, p0: int, p1: int, q0: int, q1: int, reassign: bool) -> bool:
        """
        pre: 0 <= np <= 2 and 0 <= nq <= 2
        pre: 0 <= p0 < 256 and 0 <= p1 < 256 and 0 <= q0 < 256 and 0 <= q1 < 256
        post: _
        """
        if (np < 2 and p1) or (np < 1 and p0) or (nq < 2 and q1) or (nq < 1 and q0):
            skip("unused bytes")
        p = bytes_of([p0, p1][:np])
        q = bytes_of([q0, q1][:nq])
        rnd = Urandom("salt")
        with ideal_hashes() as table, rnd.patched(), token_b64() as tb:
            schema = Schema()
            schema.pw = ChallengeField(algo)
            schema.other = ChallengeField(algo)
            cfg = schema()
            hold("stored", cfg.pw is None and len(rnd.calls) == 0, "unset field drew randomness")
            cfg.pw = p
            dv = cfg.pw
            hold("stored", type(dv) is DigestValue and len(dv) == 3, "in-memory value is not a (salt, digest, algorithm) triple")
            hold("stored", len(rnd.calls) == 1 and rnd.calls[0][0] == size, "not exactly one urandom(digest_size) call")
            hold("stored", dv.salt is rnd.calls[0][1] or dv.salt == rnd.calls[0][1], "salt is not the urandom output")
            hold("stored", len(dv.salt) == size and len(dv.digest) == size, "salt/digest length")
            if not REPLAY:
                want = table[algo].lookup(dv.salt + p)
                hold("stored", dv.digest is want or dv.digest == want, "digest is not H(salt + p)")
            else:
                import hashlib
                hold("stored", dv.digest == getattr(hashlib, algo)(dv.salt + p).digest(), "digest is not H(salt + p)")
            # verification
            try:
                dv.challenge(p)
                ok = True
            except ValueError:
                ok = False
            hold("verify", ok, "challenge with the secret failed")
            if q != p:
                try:
                    dv.challenge(q)
                    rejected = False
                except ValueError:
                    rejected = True
                hold("verify", rejected, "challenge with a different secret succeeded")
            if reassign:
                cfg.other = p
                hold("stored", len(rnd.calls) == 2, "second assignment did not draw a new salt")
                hold("stored", cfg.other.salt is rnd.calls[1][1] or cfg.other.salt == rnd.calls[1][1], "second salt")
                hold("stored", cfg.other.salt is not dv.salt, "two assignments share one salt object")
                cfg.pw = p          # the same secret assigned again to the SAME field
                hold("stored", len(rnd.calls) == 3 and cfg.pw.salt is rnd.calls[2][1],
                     "re-assigning the same secret did not draw a fresh salt")
                cfg.pw = dv         # back to the first value for the serialisation checks below
            # serialised form
            tree = cfg.to_tree()
            leaf = tree["pw"]
            hold("tree", is_plain_data(tree), "tree is not plain data")
            hold("tree", sorted(leaf.keys()) == ["digest", "salt"], "serialised challenge value has other keys")
            if not REPLAY:
                hold("tree", tb.table[leaf["salt"].encode()] is dv.salt and tb.table[leaf["digest"].encode()] is dv.digest,
                     "serialised leaves are not the encoded salt and digest")
            fresh = schema()
            calls = len(rnd.calls)
            fresh.load_tree(tree)
            hold("tree", len(rnd.calls) == calls, "loading a stored digest drew new randomness")
            back = fresh.pw
            hold("tree", type(back) is DigestValue and (back.salt is dv.salt or back.salt == dv.salt)
                 and (back.digest is dv.digest or back.digest == dv.digest), "salt/digest changed by save + load")
            try:
                back.challenge(p)
                ok = True
            except ValueError:
                ok = False
            hold("tree", ok, "challenge fails after save + load")
        return True


for _a, _s in ALGOS:
    _mk(_a, _s)


TEXTS = ("", "hello", "päss", "x" * 70, "pass:word", ":", "abcd:", "o\ufb03ce", "a\u0308b", "\uff21dmin")


@obligation(prop="C09", sites=("plain", "default"), encodes=ENC, budget={"quick": 120, "thorough": 300},
            what="real hashlib/base64/urandom on secrets from a menu (empty, ascii, non-ascii, long, containing colons / looking like salt:digest, not NFKC-normalised) for all six "
                 "algorithms: a plaintext leaf is hashed on load, the plaintext is absent from every serialised "
                 "leaf, defaults given as plaintext (text or byte string) or as DigestValue behave alike, digest == hashlib(salt+p)")
def challenge_concrete(ai: int, ti: int, default_kind: int) -> bool:
    """
    pre: 0 <= ai < 6 and 0 <= ti < 10 and 0 <= default_kind <= 4
    post: _
    """
    import base64
    import hashlib
    algo, size = ALGOS[0]
    for i in range(6):
        if ai == i:
            algo, size = ALGOS[i]
    text = TEXTS[0]
    for i in range(10):
        if ti == i:
            text = TEXTS[i]
    from vf.hlib.stubs import untraced
    dk = 0
    for i in range(5):
        if default_kind == i:
            dk = i
    default_kind = dk
    with untraced():   # everything below is concrete (menu values, real hashlib / base64 / urandom)
        return _concrete(algo, size, text, default_kind)


def _concrete(algo: str, size: int, text: str, default_kind: int) -> bool:
    import base64
    import hashlib
    schema = Schema()
    if default_kind == 0:
        schema.pw = ChallengeField(algo)
    elif default_kind == 1:
        schema.pw = ChallengeField(algo, default=text)
    elif default_kind == 3:
        schema.pw = ChallengeField(algo, default=text.encode())     # the secret as a byte string
    elif default_kind == 4:
        schema.pw = ChallengeField(algo)                            # ... assigned as a byte string
    else:
        schema.pw = ChallengeField(algo, default=DigestValue.create(text, getattr(hashlib, algo)))
    cfg = schema()
    if default_kind == 0:
        cfg.load_tree({"pw": text})  # a plaintext written by hand into a file
    elif default_kind == 4:
        cfg.pw = text.encode()
    dv = cfg.pw
    hold("plain", type(dv) is DigestValue, "plaintext leaf / default was not hashed")
    hold("plain", len(dv.salt) == size and dv.digest == getattr(hashlib, algo)(dv.salt + text.encode()).digest(),
         "digest != hashlib(salt + plaintext)")
    dv.challenge(text)
    try:
        dv.challenge(text + "x")
        hold("plain", False, "a different secret verified")
    except ValueError:
        pass
    tree = cfg.to_tree()
    leaf = tree["pw"]
    hold("plain", sorted(leaf) == ["digest", "salt"] and base64.b64decode(leaf["salt"]) == dv.salt
         and base64.b64decode(leaf["digest"]) == dv.digest, "serialised form is not base64 salt/digest")
    if len(text) >= 5:
        hold("plain", text not in leaf["salt"] and text not in leaf["digest"] and text not in str(dv),
             "plaintext appears in the serialised form")
    cfg2 = schema()
    cfg2.load_tree(tree)
    hold("default", cfg2.pw.salt == dv.salt and cfg2.pw.digest == dv.digest, "salt/digest changed by save + load")
    other = schema()
    if default_kind in (1, 3):
        hold("default", other.pw.salt != dv.salt, "two configurations share one random salt")
    return True


# --------------------------------------------------------------------------- plaintexts written by hand into real documents
HAND_TEXTS = ("hello", "123456", "0042", "3.14", "-7", "true", "null", " 2024 ", "1e3", "yes")


@obligation(prop="C09", sites=("hand",), budget={"quick": 120, "thorough": 240},
            encodes=["cincoconfig.fields.secure_field.ChallengeField.to_python", "cincoconfig.core.Config.loads"],
            what="a plaintext written by hand into a real JSON / YAML / XML document (as a string; secrets that look "
                 "like numbers, booleans or null included; field at the root or nested) is hashed on load: the "
                 "challenge with exactly that text succeeds, with another one fails, and the next save carries salt "
                 "and digest instead of the text")
def handwritten_documents_are_hashed(fi: int, ti: int, nested: bool) -> bool:
    """
    pre: 0 <= fi <= 2 and 0 <= ti < 10
    post: _
    """
    import json
    from vf.hlib.stubs import untraced
    fmt = ("json", "yaml", "xml")[0]
    for i, f in enumerate(("json", "yaml", "xml")):
        if fi == i:
            fmt = f
    text = HAND_TEXTS[0]
    for i in range(len(HAND_TEXTS)):
        if ti == i:
            text = HAND_TEXTS[i]
    nst = True if nested else False
    with untraced():
        schema = Schema()
        owner = schema.auth if nst else schema
        owner.password = ChallengeField("sha256")
        owner.other = IntField(default=1)
        if fmt == "json":
            leaf = '"password": %s' % json.dumps(text)
            doc = '{"auth": {%s}}' % leaf if nst else "{%s}" % leaf
        elif fmt == "yaml":
            leaf = "password: %s" % json.dumps(text)          # a double-quoted YAML scalar
            doc = ("auth:\n  %s\n" % leaf) if nst else leaf + "\n"
        else:
            leaf = "<password>%s</password>" % text            # no type attribute: this is what a person writes
            # (sections must be marked as maps in this XML dialect; an untyped LEAF is text)
            doc = "<config>%s</config>" % (("<auth type=\"dict\">%s</auth>" % leaf) if nst else leaf)
        cfg = schema()
        try:
            cfg.loads(doc.encode(), format=fmt)
            err = None
        except Exception as exc:  # noqa: BLE001
            err = exc
        hold("hand", err is None, lambda: "%s document with the hand-written secret %r does not load: %r" % (fmt, text, err))
        dv = (cfg.auth if nst else cfg).password
        hold("hand", type(dv) is DigestValue, "hand-written plaintext was not hashed")
        good = True
        try:
            dv.challenge(text)
        except ValueError:
            good = False
        hold("hand", good, lambda: "the hand-written secret %r does not verify after the %s load" % (text, fmt))
        try:
            dv.challenge(text + "x")
            hold("hand", False, "a different secret verifies")
        except ValueError:
            pass
        out = cfg.dumps(format=fmt).decode()
        hold("hand", "salt" in out and "digest" in out, "the next save does not carry salt and digest")
    return True
