"""C12 - defaults, user-defined status and reset behave as a consistent state machine."""
from typing import Optional

from cincoconfig import (ChallengeField, DictField, IntField, ListField, Schema, StringField, is_value_defined,
                         reset_value)
from cincoconfig.core import Config, ValidationError
from cincoconfig.fields.secure_field import DigestValue

from vf.hlib import hold, obligation, skip
from vf.hlib.stubs import make_type_nt, plain

ENC = ["cincoconfig.core.Config._set_value", "cincoconfig.core.Config._set_default_value",
       "cincoconfig.support.is_value_defined", "cincoconfig.support.reset_value"]

FIELDS = ("i", "s", "lst", "dct", "pw", "sub.b", "ct.v", "nodef", "raw", "rawd")


class Counter:
    def __init__(self):
        self.n = 0

    def __call__(self):
        self.n += 1
        return "call%d" % self.n


def _schema(counter):
    schema = Schema()
    schema.i = IntField(default=5, min=0)
    schema.s = StringField(default=counter)
    schema.lst = ListField(IntField(min=0), default=[1, 2])
    schema.dct = DictField(StringField(), IntField(min=0), default={"k": 1})
    schema.pw = ChallengeField("md5", default="hello")
    schema.sub.b = IntField(default=6, min=0)
    schema.sub.c = IntField(default=7)
    t = Schema()
    t.v = IntField(default=8, min=0)
    schema.ct = make_type_nt(t, "T")
    schema.nodef = IntField(min=0)
    schema.raw = ListField(default=[1, 2])          # untyped containers with constant defaults
    schema.rawd = DictField(default={"k": 1})
    return schema


def _get(cfg, path):
    cur = cfg
    for part in path.split("."):
        cur = getattr(cur, part)
    return cur


def _observe(cfg):
    """(comparable value, defined) per leaf field; challenge fields are observed through challenges"""
    out = {}
    for path in FIELDS + ("sub.c",):
        val = _get(cfg, path)
        if path == "pw":
            if val is None:
                obs = None
            else:
                obs = []
                for cand in ("hello", "secret"):
                    try:
                        val.challenge(cand)
                        obs.append(cand)
                    except ValueError:
                        pass
                obs = tuple(obs)
        else:
            obs = plain(val)
        out[path] = (obs, is_value_defined(cfg, path))
    return out


def _ok_value(path, x):
    return {"i": x, "s": "new", "lst": [x], "dct": {"k": x}, "pw": "secret", "sub.b": x, "ct.v": x, "nodef": x,
            "raw": [x, "t"], "rawd": {"j": x}}[path]


def _ok_obs(path, x):
    return ("secret",) if path == "pw" else _ok_value(path, x)


BADV = {"i": -1, "s": 5, "lst": [-1], "dct": {"k": -1}, "pw": 5, "sub.b": "x", "ct.v": -1, "nodef": -1, "raw": 5, "rawd": 5}
DEFAULTS = {"i": 5, "lst": [1, 2], "dct": {"k": 1}, "pw": ("hello",), "sub.b": 6, "ct.v": 8, "nodef": None, "sub.c": 7,
            "raw": [1, 2], "rawd": {"k": 1}}


def _tree(path, value):
    parts = path.split(".")
    out = value
    for p in reversed(parts):
        out = {p: out}
    return out


OPS = ("set_ok", "set_bad", "load_with", "load_without", "reset", "reset_twice", "mutate_reset", "set_bad_map",
       "section_then_reset")


def _step(fi: int, op_i: int, pre_set: bool, other_set: bool, x: int, y: int) -> bool:
    path = FIELDS[0]
    for i in range(len(FIELDS)):
        if fi == i:
            path = FIELDS[i]
    op = OPS[0]
    for i in range(len(OPS)):
        if op_i == i:
            op = OPS[i]
    counter = Counter()
    schema = _schema(counter)
    cfg = schema()
    calls0 = counter.n
    hold("fresh", calls0 == 1, "callable default not evaluated exactly once per configuration")
    obs = _observe(cfg)
    for p, (val, defined) in obs.items():
        hold("fresh", not defined, lambda: "fresh configuration reports %s as user-defined" % p)
        if p == "s":
            hold("fresh", val == "call1", "callable default value")
        else:
            hold("fresh", val == DEFAULTS[p], lambda: "fresh %s = %r, declared default %r" % (p, val, DEFAULTS[p]))
    # arbitrary reachable state
    expect = dict(obs)
    if pre_set:
        cfg[path] = _ok_value(path, y)
        expect[path] = (_ok_obs(path, y), True)
    if other_set and path != "sub.c":
        cfg["sub.c"] = y
        expect["sub.c"] = (y, True)
    hold("state", _observe(cfg) == expect, "state after accepted assignments")
    # one operation
    if op == "set_ok":
        cfg[path] = _ok_value(path, x)
        expect[path] = (_ok_obs(path, x), True)
    elif op == "set_bad":
        try:
            cfg[path] = BADV[path]
            hold("op", False, "invalid value accepted")
        except ValidationError:
            pass
    elif op == "load_with":
        cfg.load_tree(_tree(path, _ok_value(path, x)))
        expect[path] = (_ok_obs(path, x), True)
    elif op == "load_without":
        cfg.load_tree({"i2": 1} if False else {})  # a tree that does not mention the field (nor its parent map)
    elif op == "set_bad_map":
        # a map for the enclosing section whose LAST entry is rejected: the section and everything in it stay as they were
        if path not in ("sub.b", "ct.v"):
            skip("sections only")
        section, leaf = path.split(".")
        try:
            if section == "sub":
                cfg.sub = {"c": 41, "b": BADV[path]}
            else:
                cfg.ct = {"v": BADV[path]}
            hold("op", False, "invalid map accepted")
        except ValidationError:
            pass
        hold("op", is_value_defined(cfg, section) is False, "a rejected map made the section user-defined")
    elif op == "section_then_reset":
        # the section as a whole becomes user-defined through a map, then it is reset
        if path not in ("sub.b", "ct.v"):
            skip("sections only")
        section, leaf = path.split(".")
        if section == "sub":
            cfg.sub = {"b": x, "c": x}
        else:
            cfg.ct = {"v": x}
        hold("op", is_value_defined(cfg, section) is True, "assigned section not user-defined")
        reset_value(cfg, section)
        hold("op", is_value_defined(cfg, section) is False, "reset section still reported as user-defined")
        expect[path] = (DEFAULTS[path], False)
        if section == "sub":
            expect["sub.c"] = (DEFAULTS["sub.c"], False)
    elif op == "mutate_reset":
        # in-place mutation of the current (default or assigned) container value, then reset, then a fresh config
        if path not in ("lst", "dct", "raw", "rawd"):
            skip("containers only")
        val = _get(cfg, path)
        if isinstance(val, dict):
            val["zz"] = 9
        else:
            val.append(9)
        reset_value(cfg, path)
        expect[path] = (DEFAULTS[path], False)
        hold("op", plain(_get(schema(), path)) == DEFAULTS[path], "in-place mutation altered the declared default")
    elif op in ("reset", "reset_twice"):
        reset_value(cfg, path)
        if op == "reset_twice":
            reset_value(cfg, path)
        if path == "s":
            expect[path] = ("call%d" % counter.n, False)
            hold("op", counter.n == calls0 + (2 if op == "reset_twice" else 1),
                 "reset did not re-evaluate the callable default")
        else:
            expect[path] = (DEFAULTS[path], False)
    got = _observe(cfg)
    hold("op", got[path] == expect[path],
         lambda: "%s on %s: (value, user-defined) = %r, expected %r" % (op, path, got[path], expect[path]))
    for p in expect:
        if op == "load_with" and path == "sub.b" and p == "sub.c":
            # loading a map for a sub-configuration builds a new sub-configuration; whether its other fields
            # keep their previous state is not fixed by the statement -> not asserted either way
            continue
        if p != path:
            hold("op", got[p] == expect[p], lambda: "%s on %s changed %s: %r -> %r" % (op, path, p, expect[p], got[p]))
    return True


def _mk(fi: int):
    @obligation(prop="C12", name="machine_" + FIELDS[fi].replace(".", "_"), group="machine",
                sites=("fresh", "state", "op"), encodes=ENC, budget={"quick": 200, "thorough": 500},
                what="field %s: fresh defaults / not user-defined; then from a symbolic reachable state one of "
                     "set-ok, set-bad, load with key, load without key, reset, reset twice, mutate-in-place-then-reset vs the reference "
                     "(value, user-defined) machine; every other field untouched" % FIELDS[fi])
    def ob(op_i: int, pre_set: bool, other_set: bool, x: int, y: int) -> bool:
        """
        pre: 0 <= op_i < 9 and 0 <= x <= 1000 and 0 <= y <= 1000
        post: _
        """
        if not (pre_set or other_set) and y:
            skip("y unused")
        if OPS[op_i if 0 <= op_i < 9 else 0] not in ("set_ok", "load_with", "section_then_reset") and x:
            skip("x unused")
        return _step(fi, op_i, pre_set, other_set, x, y)


for _i in range(len(FIELDS)):
    _mk(_i)


@obligation(prop="C12", sites=("ctor",), encodes=["cincoconfig.core.Config.__init__"],
            budget={"quick": 120, "thorough": 300},
            what="constructor keywords: exactly the supplied fields are user-defined with the supplied values, all "
                 "others hold fresh defaults; two configurations evaluate a callable default separately")
def ctor_keywords(k_i: bool, k_lst: bool, k_sub: bool, x: int, k_none: bool) -> bool:
    """
    pre: 0 <= x <= 1000
    post: _
    """
    if k_none:
        # an explicit None is an assignment like any other: value None, user-defined
        schema = _schema(Counter())
        cfg = schema(i=None, s=None)
        hold("ctor", cfg.i is None and is_value_defined(cfg, "i"), "keyword i=None was not applied")
        hold("ctor", cfg.s is None and is_value_defined(cfg, "s"), "keyword s=None was not applied")
        hold("ctor", cfg.lst == [1, 2] and not is_value_defined(cfg, "lst"), "unsupplied field changed")
        return True
    counter = Counter()
    schema = _schema(counter)
    kw = {}
    if k_i:
        kw["i"] = x
    if k_lst:
        kw["lst"] = [x]
    if k_sub:
        kw["sub"] = {"b": x}
    cfg = schema(**kw)
    other = schema()
    hold("ctor", counter.n == 2 and cfg.s == "call1" and other.s == "call2",
         "callable default not evaluated anew for each configuration")
    obs = _observe(cfg)
    hold("ctor", obs["i"] == ((x, True) if k_i else (5, False)), "i")
    hold("ctor", obs["lst"] == (([x], True) if k_lst else ([1, 2], False)), "lst")
    hold("ctor", obs["sub.b"][0] == (x if k_sub else 6), "sub.b value")
    hold("ctor", is_value_defined(cfg, "sub") == k_sub, "sub user-defined status")
    for p in ("dct", "pw", "ct.v", "nodef", "raw", "rawd"):
        hold("ctor", obs[p] == (DEFAULTS[p], False), lambda: "unsupplied field %s: %r" % (p, obs[p]))
    return True


# --------------------------------------------------------------------------- fields that never hold a value
@obligation(prop="C12", sites=("fresh",), budget={"quick": 60, "thorough": 120},
            encodes=["cincoconfig.support.is_value_defined"],
            what="virtual and instance-method fields (root or nested, symbolic), which have no default and store "
                 "nothing, are reported as NOT user-defined on a fresh configuration and after their siblings were "
                 "assigned, loaded or reset; the siblings' own status follows the state machine")
def valueless_fields_not_user_defined(nested: bool, kind: int, touch: int) -> bool:
    """
    pre: 0 <= kind <= 1 and 0 <= touch <= 3
    post: _
    """
    from cincoconfig import InstanceMethodField, VirtualField
    schema = Schema()
    owner = schema.sec if nested else schema
    owner.plain = IntField(default=3)
    if kind == 0:
        owner.v = VirtualField(lambda cfg: 42)
    else:
        owner.v = InstanceMethodField(lambda cfg: 42)
    pre = "sec." if nested else ""
    cfg = schema()
    hold("fresh", not is_value_defined(cfg, pre + "v"), "a field that never holds a value is reported user-defined on a fresh configuration")
    hold("fresh", not is_value_defined(cfg, pre + "plain"), "fresh sibling reported user-defined")
    if touch == 1:
        cfg[pre + "plain"] = 9
    elif touch == 2:
        cfg.load_tree(_tree(pre + "plain", 9))
    elif touch == 3:
        cfg[pre + "plain"] = 9
        reset_value(cfg, pre + "plain")
    hold("fresh", is_value_defined(cfg, pre + "plain") == (touch in (1, 2)), "sibling status wrong")
    hold("fresh", not is_value_defined(cfg, pre + "v"), "touching a sibling made the valueless field user-defined")
    return True


# --------------------------------------------------------------------------- validation is not assignment
@obligation(prop="C12", sites=("fresh",), budget={"quick": 120, "thorough": 240},
            encodes=["cincoconfig.core.Schema._validate", "cincoconfig.core.Schema._validate_field",
                     "cincoconfig.support.is_value_defined"],
            what="declared defaults that are valid but not in their field's normal form (upper-case text for a "
                 "lower-casing field, a numeric text for an int field, text to strip; root and nested): an explicit "
                 "validate(), a collecting validate() or a load that mentions OTHER fields only leaves every such "
                 "field not user-defined and leaves all user-defined flags as the state machine says")
def validation_does_not_define(op: int, nested: bool, touch_other: bool) -> bool:
    """
    pre: 0 <= op <= 3
    post: _
    """
    from cincoconfig import LogLevelField
    schema = Schema()
    owner = schema.sec if nested else schema
    owner.level = LogLevelField(default="INFO")
    owner.mode = StringField(transform_case="lower", transform_strip=True, default="  Fast ")
    owner.port = IntField(default=lambda: "8080")
    owner.plain = IntField(default=3)
    schema.other = IntField(default=0)
    pre = "sec." if nested else ""
    cfg = schema()
    names = [pre + n for n in ("level", "mode", "port", "plain")]
    hold("fresh", not any(is_value_defined(cfg, n) for n in names), "fresh fields reported user-defined")
    if touch_other:
        cfg.other = 5
    if op == 0:
        cfg.validate()
    elif op == 1:
        cfg.validate(collect_errors=True)
    elif op == 2:
        cfg.load_tree({"other": 7})
    else:
        cfg.load_tree({"sec": {"plain": 4}} if nested else {"plain": 4})
    for n in names:
        want = op == 3 and n.endswith("plain")
        hold("fresh", is_value_defined(cfg, n) == want,
             lambda: "after validation / a load of other fields %s is reported %suser-defined" % (n, "" if not want else "not "))
    hold("fresh", is_value_defined(cfg, "other") == (touch_other or op == 2), "status of the other field wrong")
    return True


# --------------------------------------------------------------------------- reset of a dynamic section
@obligation(prop="C12", sites=("reset",), budget={"quick": 120, "thorough": 240},
            encodes=["cincoconfig.support.reset_value", "cincoconfig.core.Schema.__setdefault__"],
            what="reset_value on a whole sub-configuration (plain or dynamic; declared and undeclared keys set by "
                 "assignment or by a load, symbolic): afterwards it equals the sub-configuration of a freshly built "
                 "configuration - declared fields at their defaults and not user-defined, undeclared keys gone - "
                 "and no other field moved")
def reset_whole_section(dynamic: bool, by_load: bool, set_declared: bool, set_extra: bool, x: int) -> bool:
    """
    pre: 0 <= x <= 9
    post: _
    """
    schema = Schema()
    schema.keep = IntField(default=1)
    schema.plug = Schema(dynamic=dynamic)
    schema.plug.size = IntField(default=2)
    schema.plug.tags = ListField(IntField(), default=lambda: [1])
    if set_extra and not dynamic:
        skip("undeclared keys need a dynamic section")
    cfg = schema()
    cfg.keep = 8
    values = {}
    if set_declared:
        values["size"] = x
        values["tags"] = [x]
    if set_extra:
        values["extra"] = x
    if by_load:
        cfg.load_tree({"plug": values})
    else:
        for k, v in values.items():
            cfg.plug[k] = v
    reset_value(cfg, "plug")
    fresh = schema()
    hold("reset", plain(cfg.plug) == plain(fresh.plug),
         lambda: "after resetting the section it holds %r, a fresh one %r" % (plain(cfg.plug), plain(fresh.plug)))
    hold("reset", not is_value_defined(cfg, "plug.size") and not is_value_defined(cfg, "plug.tags")
         and not is_value_defined(cfg, "plug"), "reset section still reports user-defined fields")
    hold("reset", "extra" not in cfg.plug and "plug.extra" not in cfg, "an undeclared key survived the reset of its section")
    hold("reset", cfg.keep == 8 and is_value_defined(cfg, "keep"), "another field moved")
    return True
