"""C19 - a failed save never damages the file on disk; a successful one loads back."""
from typing import Optional
from unittest import mock

from cincoconfig import BytesField, IntField, ListField, Schema, SecureField, StringField
from cincoconfig.core import Config, ConfigFormat, Field
from cincoconfig.encryption import KeyFile

from vf.hlib import hold, obligation, skip
from vf.hlib.stubs import FakeFS, MemStore, plain

ENC = ["cincoconfig.core.Config.save", "cincoconfig.core.Config.dumps", "cincoconfig.core.Config.to_tree"]
KEYPATH = "/k/app.key"
KEY = bytes(range(1, 33))
DEST = "/cfg/out.cfg"
OLD = b"OLD CONTENT OF A PREVIOUSLY SAVED CONFIGURATION"


def _schema():
    item = Schema()
    item.v = IntField(default=0)
    item.tok = SecureField(method="xor", default="tok")      # a secret INSIDE a list item (key file of the root)
    schema = Schema(dynamic=True)
    schema.a = IntField(default=1)
    schema.data = BytesField(default=b"\x00\xff")
    schema.pw = SecureField(method="xor", default="pw")
    schema.lst = ListField(IntField(), default=lambda: [1, 2])
    schema.sub.b = StringField(default="b")
    schema.sub.pw2 = SecureField(method="xor", default="pw2")
    schema.items = ListField(item, default=lambda: [{"v": 1}])
    return schema


class Fault(Exception):
    pass


class Injector:
    """counts the steps serialisation goes through; step number k raises"""

    def __init__(self, k: int):
        self.k, self.n, self.fired = k, 0, False

    def step(self):
        cur = self.n
        self.n += 1
        if cur == self.k:
            self.fired = True
            raise Fault("injected fault at step %d" % cur)

    def wrap(self, fn):
        inj = self

        def wrapper(*a, **kw):
            inj.step()
            return fn(*a, **kw)
        return wrapper


@obligation(prop="C19", sites=("fault", "nofault"), encodes=ENC, stubs=("FakeFS", "MemFormat"),
            budget={"quick": 200, "thorough": 400},
            what="Config.save with a fault injected at step k (k symbolic; steps = ConfigFormat.get, every field's "
                 "to_basic incl. nested and list items, KeyFile.__enter__, KeyFile.encrypt, formatter.dumps): fault => "
                 "save raises, the destination is never opened for writing and keeps its bytes; no fault => file == "
                 "dumps output and loads back equal")
def save_fault_point(k: int, dest_exists: bool) -> bool:
    """
    pre: -1 <= k <= 30
    post: _
    """
    fs = FakeFS(files={KEYPATH: KEY}, dirs=["/k", "/cfg"])
    if dest_exists:
        fs.files[DEST] = OLD
    mem = MemStore()
    inj = Injector(k)
    with fs.patched(), mem.registered():
        schema = _schema()
        cfg = schema(key_filename=KEYPATH)
        patches = []
        for cls in (IntField, BytesField, SecureField, ListField, StringField):
            patches.append(mock.patch.object(cls, "to_basic", inj.wrap(cls.to_basic)))
        patches.append(mock.patch.object(KeyFile, "__enter__", inj.wrap(KeyFile.__enter__)))
        patches.append(mock.patch.object(KeyFile, "encrypt", inj.wrap(KeyFile.encrypt)))
        real_get = ConfigFormat.get.__func__

        def get(cls, name, **kw):
            inj.step()
            fmt = real_get(cls, name, **kw)
            fmt.dumps = inj.wrap(fmt.dumps)
            return fmt
        patches.append(mock.patch.object(ConfigFormat, "get", classmethod(get)))
        raised = None
        opens_before = len(fs.opens)
        for p in patches:
            p.start()
        try:
            try:
                cfg.save(DEST, format="mem")
            except Exception as exc:  # noqa: BLE001
                raised = exc
        finally:
            for p in reversed(patches):
                p.stop()
        wrote = [m for p, m in fs.opens[opens_before:] if p == DEST and ("w" in m or "a" in m or "+" in m)]
        if inj.fired:
            hold("fault", DEST not in fs.writes, "destination created/truncated although serialisation failed")
            hold("fault", raised is not None, "save returned although serialisation failed")
            hold("fault", not wrote, "destination opened for writing although serialisation failed")
            hold("fault", fs.files.get(DEST) == (OLD if dest_exists else None),
                 "destination bytes changed by a failed save")
        else:
            hold("nofault", raised is None, lambda: "save failed without a fault: %r" % (raised,))
            hold("nofault", inj.n >= 12, "fewer serialisation steps than the schema has fields")
            content = fs.files.get(DEST)
            hold("nofault", content is not None and content in mem.docs and mem.docs[content] == cfg.to_tree(),
                 "file != serialised configuration")
            hold("nofault", mem.dumps_calls == 1, "serialised more than once")
            fresh = schema(key_filename=KEYPATH)
            fresh.load(DEST, format="mem")
            hold("nofault", plain(fresh) == plain(cfg), "saved file does not load back equal")
    return True


NATURAL = ("unencodable", "bad_keyfile", "unknown_format", "missing_keydir", "ok_json", "ok_xml", "ok_yaml",
           "ok_bson", "ok_pickle", "xml_bad_char", "xml_bad_key", "bson_big_int", "yaml_ok_weird",
           "formatter_returns_text", "formatter_returns_none", "missing_keydir_one_secret", "formatter_returns_view")


@obligation(prop="C19", sites=("fault", "nofault"), encodes=ENC, stubs=("FakeFS",),
            budget={"quick": 120, "thorough": 300},
            what="natural failures through the real formatters (value json cannot encode, key file of the wrong "
                 "size, unknown format name, key file directory missing, a registered format that returns text or None): "
                 "destination untouched; successful saves "
                 "in the five real formats write exactly dumps() and load back equal")
def save_natural_faults(case: int, dest_exists: bool) -> bool:
    """
    pre: 0 <= case < 17
    post: _
    """
    name = NATURAL[0]
    for i in range(len(NATURAL)):
        if case == i:
            name = NATURAL[i]
    fs = FakeFS(files={KEYPATH: KEY}, dirs=["/k", "/cfg"])
    if dest_exists:
        fs.files[DEST] = OLD
    with fs.patched():
        schema = _schema()
        keyfile = KEYPATH
        fmt = "json"
        if name == "bad_keyfile":
            fs.files[KEYPATH] = b"short"
        elif name == "missing_keydir":
            keyfile = "/nodir/app.key"
        elif name == "missing_keydir_one_secret":
            # the same fault with exactly ONE secret in the configuration (a retry meets the key file once only)
            keyfile = "/nodir/app.key"
            schema = Schema()
            schema.title = StringField(default="t")
            schema.pw = SecureField(method="xor", default="only-secret")
        cfg = schema(key_filename=keyfile)
        if name == "unencodable":
            cfg.extra = {1, 2}  # a set: no format-independent plain-data form; json cannot encode it
        elif name == "unknown_format":
            fmt = "toml"
        elif name == "xml_bad_char":
            fmt = "xml"
            cfg.sub.b = "vertical\x0btab"          # a character XML 1.0 cannot carry: outside the format's domain
        elif name == "xml_bad_key":
            fmt = "xml"
            cfg.extra = {"1 not a name": 5}        # a map key that is not an XML name
        elif name == "bson_big_int":
            fmt = "bson"
            cfg.a = 2 ** 70                        # beyond 64 bits
        elif name == "yaml_ok_weird":
            fmt = "yaml"
            cfg.sub.b = "vertical\x0btab: [x"
        elif name.startswith("ok_"):
            fmt = name[3:]
        elif name.startswith("formatter_returns_"):
            # a registered format whose dumps() does not produce bytes: the last serialisation step fails
            from cincoconfig.core import ConfigFormat
            product = "<text/>" if name.endswith("text") else None
            if name.endswith("view"):
                product = memoryview(b"a-b-c-d-")[::2]      # bytes-like, but not contiguous: cannot be written as is

            class _TextFormat(ConfigFormat):
                def __init__(self, **kw):
                    pass

                def dumps(self, config, tree):
                    return product

                def loads(self, config, content):
                    return {}
            ConfigFormat.initialize_registry()
            ConfigFormat.register("vftext", _TextFormat)
            fmt = "vftext"
        opens_before = len(fs.opens)
        raised = None
        try:
            cfg.save(DEST, format=fmt)
        except Exception as exc:  # noqa: BLE001
            raised = exc
        wrote = [m for p, m in fs.opens[opens_before:] if p == DEST and ("w" in m or "a" in m or "+" in m)]
        if name == "yaml_ok_weird":
            name = "ok_yaml"
        if name == "formatter_returns_view":
            # bytes-like content that cannot be written as it is: either the save fails BEFORE touching the
            # destination, or it writes exactly those bytes
            if raised is None:
                return hold("nofault", bytes(fs.files.get(DEST)) == b"abcd", "written bytes differ from the formatter's output")
            hold("fault", not wrote and fs.files.get(DEST) == (OLD if dest_exists else None),
                 "destination truncated although the content could not be written")
            return True
        if name.startswith("ok_"):
            hold("nofault", raised is None, lambda: "save failed: %r" % (raised,))
            content = fs.files.get(DEST)
            hold("nofault", isinstance(content, bytes) and len(content) > 0, "nothing written")
            fresh = schema(key_filename=keyfile)
            fresh.load(DEST, format=fmt)
            hold("nofault", plain(fresh) == plain(cfg), lambda: "saved %s file does not load back equal: %r vs %r" % (
                fmt, plain(fresh), plain(cfg)))
        else:
            hold("fault", raised is not None, lambda: "save succeeded in case %s" % name)
            hold("fault", not wrote, "destination opened for writing although serialisation failed")
            hold("fault", fs.files.get(DEST) == (OLD if dest_exists else None), "destination bytes changed")
            # the fault is still there: a RETRY on the same configuration object fails the same way (no state left
            # over from the first attempt lets it through) and still leaves the destination alone
            opens_before = len(fs.opens)
            again = None
            try:
                cfg.save(DEST, format=fmt)
            except Exception as exc:  # noqa: BLE001
                again = exc
            wrote = [m for p, m in fs.opens[opens_before:] if p == DEST and ("w" in m or "a" in m or "+" in m)]
            hold("fault", again is not None and not wrote and fs.files.get(DEST) == (OLD if dest_exists else None),
                 lambda: "a retried save in case %s %s" % (name, "succeeded" if again is None else "touched the destination"))
    return True


@obligation(prop="C19", sites=("rt",), encodes=["cincoconfig.core.Config.save", "cincoconfig.core.Config.load"],
            stubs=("FakeFS",), budget={"quick": 500, "thorough": 800},
            what="a file written by save() loads back equal through load() for documents of EVERY length residue: a "
                 "string value padded to n characters, n symbolic in 0..255 (the codecs run concretely, untraced), "
                 "the two binary formats bson and pickle (they start with length / opcode bytes that may "
                 "look like white space)")
def save_load_every_length(n: int, fi: int) -> bool:
    """
    pre: 0 <= n <= 255 and 0 <= fi <= 1
    post: _
    """
    from vf.hlib.stubs import untraced
    fmt = "bson" if fi == 0 else "pickle"
    pad = "x" * n     # (the engine realises n here: one path per length)
    fs = FakeFS(files={KEYPATH: KEY}, dirs=["/k", "/cfg"])
    with fs.patched():
        with untraced():
            schema = Schema()
            schema.text = StringField(default="")
            schema.flag = IntField(default=1)
            cfg = schema()
            cfg.text = pad
            cfg.save(DEST, format=fmt)
            fresh = schema()
            try:
                fresh.load(DEST, format=fmt)
                err = None
            except Exception as exc:  # noqa: BLE001
                err = exc
            same = err is None and plain(fresh) == plain(cfg)
        hold("rt", same, lambda: "%s document of a %d-character value does not load back: %r" % (fmt, len(pad), err))
    return True


@obligation(prop="C19", sites=("again",), encodes=ENC, stubs=("FakeFS", "MemFormat"), budget={"quick": 200, "thorough": 400},
            what="histories of saves on one configuration object: save, then the file is changed by someone else "
                 "(other content / deleted / saved by another configuration) or the configuration itself changes "
                 "(symbolic), then save again: the file holds exactly the serialisation of the current configuration")
def save_twice(between: int, change_value: bool, fmt_i: int) -> bool:
    """
    pre: 0 <= between <= 3 and 0 <= fmt_i <= 1
    post: _
    """
    fs = FakeFS(files={KEYPATH: KEY}, dirs=["/k", "/cfg"])
    mem = MemStore()
    fmt = "mem" if fmt_i == 0 else "json"
    with fs.patched(), mem.registered():
        schema = _schema()
        cfg = schema(key_filename=KEYPATH)
        cfg.save(DEST, format=fmt)
        first = fs.files.get(DEST)
        hold("again", first is not None, "first save wrote nothing")
        if between == 1:
            fs.files[DEST] = OLD                      # rewritten by something else
        elif between == 2:
            del fs.files[DEST]                        # deleted
        elif between == 3:
            other = schema(key_filename=KEYPATH)
            other.a = 4242
            other.save(DEST, format=fmt)              # another configuration saved to the same path
        if change_value:
            cfg.a = 77
        cfg.save(DEST, format=fmt)
        content = fs.files.get(DEST)
        hold("again", content is not None, "second save left no file")
        fresh = schema(key_filename=KEYPATH)
        fresh.load(DEST, format=fmt)
        hold("again", plain(fresh) == plain(cfg),
             lambda: "after the second save the file does not hold the current configuration: %r" % (content,))
    return True


# --------------------------------------------------------------------------- saves that ask for virtual output
@obligation(prop="C19", sites=("back",), encodes=ENC + ["cincoconfig.core.Config.load_tree"], stubs=("FakeFS", "MemFormat"),
            budget={"quick": 60, "thorough": 120},
            what="save(..., virtual=True) on a schema with read-only virtual fields (plain and the is_<mode>_mode "
                 "helpers of an application-mode field), a virtual field with a setter and an instance method, at the "
                 "root or nested: the written file loads back into an equal configuration")
def save_with_virtual_output_loads_back(nested: bool, real: bool, v: int) -> bool:
    """
    pre: 0 <= v <= 9
    post: _
    """
    from cincoconfig import ApplicationModeField, InstanceMethodField, VirtualField
    fs = FakeFS(files={KEYPATH: KEY}, dirs=["/k", "/cfg"])
    mem = MemStore()
    with fs.patched(), mem.registered():
        schema = Schema()
        owner = schema.sec if nested else schema
        owner.a = IntField(default=1)
        owner.mode = ApplicationModeField(default="production")
        owner.double = VirtualField(lambda cfg: (cfg.a or 0) * 2)
        owner.alias = VirtualField(lambda cfg: cfg.a, lambda cfg, value: cfg.__setattr__("a", value))
        owner.hello = InstanceMethodField(lambda cfg: "hi")
        cfg = schema(key_filename=KEYPATH)
        (cfg.sec if nested else cfg).a = v
        fmt = "json" if real else "mem"
        cfg.save(DEST, format=fmt, virtual=True)
        fresh = schema(key_filename=KEYPATH)
        try:
            fresh.load(DEST, format=fmt)
            err = None
        except Exception as exc:  # noqa: BLE001
            err = exc
        hold("back", err is None, lambda: "a file written by save(virtual=True) does not load back: %r" % (err,))
        hold("back", plain(fresh) == plain(cfg) and (fresh.sec if nested else fresh).double == 2 * v,
             "loaded configuration differs")
    return True
