"""C18 - including files is a deep merge in the including scope, included values win."""
from typing import Optional

from cincoconfig import IncludeField, IntField, Schema

from vf.hlib import hold, obligation, skip
from vf.hlib.stubs import FakeFS, MemStore, plain, _deep

ENC_MERGE = ["cincoconfig.fields.include_field.IncludeField.combine_trees"]


def ref_merge(base: dict, child: dict) -> dict:
    """Reference deep merge written from the statement (included = child wins)."""
    out = {}
    for k in base:
        out[k] = _deep(base[k])
    for k in child:
        if k in base and type(base[k]) is dict and type(child[k]) is dict:
            out[k] = ref_merge(base[k], child[k])
        else:
            out[k] = _deep(child[k])
    return out


def _leafdict(sel: int, v: int, depth: int):
    """sel: 0 absent, 1 int (v == 0 stands for a null value), 2.. dict variants (one inner key 'a' recursively)."""
    if sel == 0:
        return None, False
    if sel == 1:
        return (None if v == 0 else v), True
    if depth == 0:
        skip("depth")
    inner, present = _leafdict(sel - 2, v + 1, depth - 1)
    return ({"a": inner} if present else {}), True


@obligation(prop="C18", sites=("merged",), encodes=ENC_MERGE, budget={"quick": 60, "thorough": 240},
            what="combine_trees == reference deep merge and is pure; one key, depth 3, map/non-map conflicts")
def merge_depth3(sb: int, sc: int, vb: int, vc: int) -> bool:
    """
    pre: 0 <= sb <= 5 and 0 <= sc <= 5
    post: _
    """
    b, pb = _leafdict(sb, vb, 2)
    c, pc = _leafdict(sc, vc, 2)
    base = {"a": b} if pb else {}
    child = {"a": c} if pc else {}
    base0, child0 = _deep(base), _deep(child)
    got = IncludeField().combine_trees(base, child)
    hold("merged", got == ref_merge(base0, child0), "merge differs from the reference deep merge")
    hold("merged", base == base0 and child == child0, "combine_trees mutated an input tree")
    return True


def _node2(sel: int, va: int, vb: int):
    """0 absent, 1 int, 2..5 dict over keys a,b (each absent|int)."""
    if sel == 0:
        return None, False
    if sel == 1:
        return (None if va == 0 else va), True
    d = {}
    if sel in (3, 5):
        d["a"] = va
    if sel in (4, 5):
        d["b"] = vb
    return d, True


@obligation(prop="C18", sites=("merged",), encodes=ENC_MERGE, budget={"quick": 300, "thorough": 600},
            what="combine_trees == reference merge and pure; two top-level keys, nested maps over two keys, "
                 "overlapping and disjoint key sets, map/non-map conflicts")
def merge_two_keys(ba: int, bb: int, ca: int, cb: int, v1: int, v2: int, v3: int, v4: int) -> bool:
    """
    pre: 0 <= ba <= 5 and 0 <= bb <= 5 and 0 <= ca <= 5 and 0 <= cb <= 5
    post: _
    """
    base, child = {}, {}
    for key, sel, tree, x, y in (("a", ba, base, v1, v2), ("b", bb, base, v2, v1),
                                 ("a", ca, child, v3, v4), ("b", cb, child, v4, v3)):
        node, present = _node2(sel, x, y)
        if present:
            tree[key] = node
    base0, child0 = _deep(base), _deep(child)
    got = IncludeField().combine_trees(base, child)
    hold("merged", got == ref_merge(base0, child0), "merge differs from the reference deep merge")
    hold("merged", base == base0 and child == child0, "combine_trees mutated an input tree")
    return True


# --------------------------------------------------------------------------- Config.loads with includes
SUB_FIRST = [False]   # declaration order of the nested schema vs the include fields (set per obligation)


def _schema(startdir):
    schema = Schema()
    if SUB_FIRST[0]:
        schema.sub.y = IntField(default=3)
        schema.sub.inc = IncludeField(startdir=startdir)
        schema.sub.z = IntField(default=4)
    schema.inc = IncludeField(startdir=startdir)
    schema.inc2 = IncludeField(startdir=startdir)
    schema.x = IntField(default=1)
    schema.w = IntField(default=2)
    if not SUB_FIRST[0]:
        schema.sub.inc = IncludeField(startdir=startdir)
        schema.sub.y = IntField(default=3)
        schema.sub.z = IntField(default=4)
    return schema


PATHS = ("r.mem", "/cfg/r.mem", "missing.mem", "/cfg/dir")  # relative-existing, absolute, missing, directory


def _loads(root_inc: int, chain: bool, nested_inc: int,
           main_x: Optional[int], main_y: Optional[int],
           f_x: Optional[int], f_y: Optional[int], f_z: Optional[int],
           g_w: Optional[int], n_y: Optional[int], n_z: Optional[int]) -> bool:
    fs = FakeFS(dirs=["/cfg", "/cfg/dir"])
    mem = MemStore()
    # included documents
    f_tree = {}
    if f_x is not None:
        f_tree["x"] = f_x
    sub = {}
    if f_y is not None:
        sub["y"] = f_y
    if f_z is not None:
        sub["z"] = f_z
    if sub:
        f_tree["sub"] = sub
        if SUB_FIRST[0] and f_z is not None and nested_inc < 0:
            sub["inc"] = "n.mem"          # the nested include is named by what the root include contributes
    g_tree = {"w": g_w} if g_w is not None else {}
    n_tree = {}
    if n_y is not None:
        n_tree["y"] = n_y
    if n_z is not None:
        n_tree["z"] = n_z
    fs.files["/cfg/r.mem"] = mem.put(f_tree)
    fs.files["/cfg/g.mem"] = mem.put(g_tree)
    fs.files["/cfg/n.mem"] = mem.put(n_tree)
    # same-named files relative to the working directory: must never be read (paths resolve against startdir)
    decoy = mem.put({"x": 4242, "w": 4242, "sub": {"y": 4242, "z": 4242}})
    for name in ("r.mem", "g.mem", "n.mem"):
        fs.files[name] = decoy
    nested_paths = ("n.mem", "/cfg/n.mem", "missing.mem", "/cfg/dir")
    # main document
    main = {}
    if root_inc >= 0:
        main["inc"] = PATHS[root_inc]
    if chain:
        main["inc2"] = "g.mem"
    if main_x is not None:
        main["x"] = main_x
    msub = {}
    if nested_inc >= 0:
        msub["inc"] = nested_paths[nested_inc]
    if main_y is not None:
        msub["y"] = main_y
    if msub:
        main["sub"] = msub
    doc = mem.put(main)
    should_fail = root_inc in (2, 3) or nested_inc in (2, 3)
    # reference: merge per scope, root includes first (field order), then nested scope
    ref = _deep(main)
    if root_inc in (0, 1):
        ref = ref_merge(ref, f_tree)
    if chain:
        ref = ref_merge(ref, g_tree)
    if not should_fail and isinstance(ref.get("sub"), dict) and ref["sub"].get("inc") is not None:
        ref["sub"] = ref_merge(ref["sub"], n_tree)
    with fs.patched(), mem.registered():
        cfg = _schema("/cfg")()
        try:
            cfg.loads(doc, format="mem")
        except Exception as exc:  # noqa: BLE001
            # (lazy label: the error now carries the configuration object, which must not be rendered while tracing)
            return hold("fail", should_fail, lambda: "load with resolvable includes failed: %r" % (exc,))
        hold("equiv", not should_fail, "load succeeded although an include path is missing or a directory")
        want = _schema("/cfg")()
        want.load_tree(ref)
        hold("equiv", plain(cfg) == plain(want), "loads with includes != load of the reference-merged tree")
    return True


def _make(root_inc: int):
    @obligation(prop="C18", name="loads_with_includes_root%d" % (root_inc + 1), group="loads_with_includes",
                sites=("equiv", "fail"), stubs=("FakeFS", "MemFormat"),
                encodes=["cincoconfig.core.Config.loads", "cincoconfig.core.Config._process_includes",
                         "cincoconfig.fields.include_field.IncludeField.include",
                         "cincoconfig.fields.include_field.IncludeField.combine_trees",
                         "cincoconfig.fields.file_field.FilenameField._validate"],
                budget={"quick": 500, "thorough": 900},
                what="Config.loads with include fields at the root (two, chained) and in a nested schema == loading "
                     "the reference-merged tree; missing/directory include path => the load fails "
                     "(root include path kind fixed per obligation: none/relative/absolute/missing/directory)")
    def ob(chain: bool, nested_inc: int, main_x: Optional[int], main_y: Optional[int],
           f_x: Optional[int], f_y: Optional[int], n_y: Optional[int], v1: int, v2: int, v3: int, sub_first: bool) -> bool:
        """
        pre: -1 <= nested_inc <= 3
        post: _
        """
        if sub_first and (chain or main_x is not None or f_x is not None):
            skip("declaration order: explored for the nested-scope dimensions only")
        SUB_FIRST[0] = bool(sub_first)
        try:
            return _loads(root_inc, chain, nested_inc, main_x, main_y, f_x, f_y,
                          v1 if f_y is not None else None, v2, n_y, v3)
        finally:
            SUB_FIRST[0] = False


for _r in (-1, 0, 1, 2, 3):
    _make(_r)


# --------------------------------------------------------------------------- format options and home-relative start dirs
@obligation(prop="C18", sites=("equiv",), stubs=("FakeFS", "MemFormat"), budget={"quick": 120, "thorough": 240},
            encodes=["cincoconfig.core.Config.loads", "cincoconfig.core.Config._process_includes",
                     "cincoconfig.fields.include_field.IncludeField.include",
                     "cincoconfig.fields.file_field.FilenameField._validate"],
            examples=({"option": True, "home_startdir": True, "root_inc": True, "nested_inc": True, "x": 5, "y": 6},),
            what="a load with a FORMAT OPTION (a root wrapper, like root_key / root_tag) and include files at the "
                 "root and in a nested schema written with the same option, the start directory absolute or given "
                 "relative to the home directory ('~/conf'): every included file is parsed by a formatter carrying "
                 "the caller's options, and the result equals loading the reference-merged tree")
def includes_with_format_options(option: bool, home_startdir: bool, root_inc: bool, nested_inc: bool, x: int, y: int) -> bool:
    """
    pre: 0 <= x <= 9 and 0 <= y <= 9
    post: _
    """
    from vf.hlib.stubs import HOME
    base = HOME + "/conf" if home_startdir else "/cfg"
    startdir = "~/conf" if home_startdir else "/cfg"
    fs = FakeFS(dirs=["/cfg", HOME, HOME + "/conf"])
    mem = MemStore()
    kw = {"wrap": "ROOT"} if option else {}

    def doc(tree):
        return mem.put({"ROOT": tree} if option else tree)
    fs.files[base + "/r.mem"] = doc({"x": x, "sub": {"z": 7}})
    fs.files[base + "/n.mem"] = doc({"y": y})
    schema = Schema()
    schema.inc = IncludeField(startdir=startdir)
    schema.x = IntField(default=1)
    schema.sub.inc = IncludeField(startdir=startdir)
    schema.sub.y = IntField(default=3)
    schema.sub.z = IntField(default=4)
    main = {"x": 100, "sub": {"y": 200}}
    ref = {"x": 100, "sub": {"y": 200}}
    if root_inc:
        main["inc"] = "r.mem"
        ref = ref_merge(ref, {"x": x, "sub": {"z": 7}})
    if nested_inc:
        main["sub"]["inc"] = "n.mem"
        ref["sub"] = ref_merge(ref["sub"], {"y": y})
    with fs.patched(), mem.registered():
        cfg = schema()
        created0 = len(mem.created)
        try:
            cfg.loads(doc(main), format="mem", **kw)
            err = None
        except Exception as exc:  # noqa: BLE001
            err = exc
        hold("equiv", err is None, lambda: "load with includes failed: %r" % (err,))
        hold("equiv", all(k == kw for k in mem.created[created0:]),
             lambda: "formatters built during the load carry %r, the caller asked for %r" % (mem.created[created0:], kw))
        hold("equiv", (cfg.x, cfg.sub.y, cfg.sub.z) == (ref["x"], ref["sub"]["y"], ref["sub"].get("z", 4)),
             lambda: "loaded %r, reference merge gives %r" % ((cfg.x, cfg.sub.y, cfg.sub.z), ref))
    return True
