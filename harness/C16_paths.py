"""C16 - all ways of naming a field agree; command-line overrides touch only what's given."""
from typing import Optional

from cincoconfig import (BoolField, FloatField, IntField, ListField, LogLevelField, Schema, SecureField, StringField,
                         cmdline_args_override, generate_argparse_parser, get_all_fields, item_ref_path)
from cincoconfig.core import Config, ValidationError

from vf.hlib import hold, known, obligation, skip
from vf.hlib.stubs import plain

KINDS = 6  # 0 Int 1 Str 2 Bool 3 Float 4 List 5 Secure ; 6 = sub-schema


def _leaf(kind: int):
    if kind == 0:
        return IntField(default=1)
    if kind == 1:
        return StringField(default="s")
    if kind == 2:
        return BoolField(default=True)
    if kind == 3:
        return FloatField(default=1.5)
    if kind == 4:
        return ListField(IntField(), default=lambda: [1])
    if kind == 5:
        return SecureField(default="pw")
    skip("kind")


@obligation(prop="C16", sites=("path",), budget={"quick": 200, "thorough": 400},
            examples=({"ka": 6, "kc": 6, "ke": 0, "kb": 0, "v": 5, "bottom_up": True},
                      {"ka": 0, "kc": 0, "ke": 0, "kb": 0, "v": 5, "bottom_up": False}),
            encodes=["cincoconfig.support.get_all_fields", "cincoconfig.core.Schema.__getitem__",
                     "cincoconfig.core.Config.__getitem__", "cincoconfig.core.Config.__setitem__",
                     "cincoconfig.core.Config.__contains__", "cincoconfig.core.BaseField._ref_path"],
            what="for every path enumerated on a symbolic schema shape (depth<=3): schema[path] is the field, "
                 "item_ref_path == path, config[path] == chained attribute access, path in config, "
                 "config[path]=v lands there; enumerated set == oracle set")
def path_agreement(ka: int, kc: int, ke: int, kb: int, v: int, bottom_up: bool) -> bool:
    """
    pre: 0 <= ka <= 6 and 0 <= kc <= 6 and 0 <= ke <= 5 and 0 <= kb <= 5
    post: _
    """
    schema = Schema()
    want = []
    if ka == 6 and bottom_up:
        # sub-schemas populated first and mounted afterwards
        want.append("a")
        sub = Schema()
        if kc == 6:
            inner = Schema()
            inner.e = _leaf(ke)
            sub.c = inner
            want += ["a.c", "a.c.e"]
        else:
            sub.c = _leaf(kc)
            want.append("a.c")
        sub.d = StringField(default="d")
        want.append("a.d")
        # reading paths before mounting must not freeze them (children AND grandchildren of the mounted schema)
        hold("path", item_ref_path(sub.d) == "d" and item_ref_path(sub.c) == "c", "stand-alone path")
        if kc == 6:
            hold("path", item_ref_path(sub.c.e) == "c.e", "stand-alone path of a grandchild")
        schema.a = sub
    elif ka == 6:
        want.append("a")
        if kc == 6:
            want.append("a.c")
            schema.a.c.e = _leaf(ke)
            want.append("a.c.e")
        else:
            schema.a.c = _leaf(kc)
            want.append("a.c")
        schema.a.d = StringField(default="d")
        want.append("a.d")
    else:
        schema.a = _leaf(ka)
        want.append("a")
    schema.b_x = _leaf(kb)
    want.append("b_x")
    if kb in (0, 1):
        schema.empty_section = Schema()          # a sub-schema without any field yet
        want.append("empty_section")
        if kb == 1:
            schema.a_holder.inner_empty = Schema()
            want += ["a_holder", "a_holder.inner_empty"]
    fields = get_all_fields(schema)
    hold("path", sorted(p for p, _, _ in fields) == sorted(want), "enumerated paths differ from the declared ones")
    cfg = schema()
    for path, owner, field in fields:
        hold("path", schema[path] is field, "schema[path] is not the enumerated field")
        hold("path", item_ref_path(field) == path, "reference path != enumerated path")
        hold("path", path in cfg, "path not in config")
        cur = cfg
        for part in path.split("."):
            cur = getattr(cur, part)
        got = cfg[path]
        hold("path", got is cur or got == cur, "config[path] != chained attribute access")
        hold("path", owner._fields.get(path.rsplit(".", 1)[-1]) is field, "owning schema does not hold the field")
        if isinstance(field, IntField):
            before = plain(cfg)
            cfg[path] = v
            cur = cfg
            for part in path.split("."):
                cur = getattr(cur, part)
            hold("path", cur == v and cfg[path] == v, "dotted-path assignment did not land on the field")
            after = plain(cfg)
            # nothing else changed
            node_b, node_a = before, after
            parts = path.split(".")
            for part in parts[:-1]:
                hold("path", {k: x for k, x in node_b.items() if k != part} == {k: x for k, x in node_a.items() if k != part},
                     "dotted-path assignment changed another field")
                node_b, node_a = node_b[part], node_a[part]
            hold("path", {k: x for k, x in node_b.items() if k != parts[-1]} == {k: x for k, x in node_a.items() if k != parts[-1]},
                 "dotted-path assignment changed another field")
    hold("path", "zz" not in cfg and "a.zz.q" not in cfg, "membership true for an undeclared path")
    return True


# --------------------------------------------------------------------------- argparse
def _cli_schema():
    schema = Schema()
    schema.port = IntField(default=80, min=1, max=65535)
    schema.name = StringField(default="n0")
    schema.rate = FloatField(default=0.5)
    schema.debug = BoolField(default=True)
    schema.quiet = BoolField(default=False)
    schema.tags = ListField(IntField(), default=lambda: [1])
    schema.level_x = IntField(default=4)     # its path is a substring of "sub.level_x"
    schema.loglevel = LogLevelField(default="info")          # choices + strip + lower-case transforms
    schema.region = StringField(choices=["us", "eu"], transform_case="lower", transform_strip=True, default="us")
    schema.sub.flag = BoolField(default=True)
    schema.sub.level_x = IntField(default=3)
    schema.sub.deep.pw = SecureField(default="pw0")
    return schema


ORACLE_OPTS = {
    "port": ["--port"], "name": ["--name"], "rate": ["--rate"],
    "debug": ["--debug", "--no-debug"], "quiet": ["--quiet", "--no-quiet"],
    "level_x": ["--level-x"], "loglevel": ["--loglevel"], "region": ["--region"],
    "sub.flag": ["--sub-flag", "--no-sub-flag"], "sub.level_x": ["--sub-level-x"],
    "sub.deep.pw": ["--sub-deep-pw"],
}


@obligation(prop="C16", sites=("options",), budget={"quick": 30, "thorough": 60},
            encodes=["cincoconfig.support.generate_argparse_parser"],
            what="generated parser offers exactly one option per scalar field (on/off switch for booleans), dest = path")
def parser_options(dummy: bool) -> bool:
    """
    post: _
    """
    parser = generate_argparse_parser(_cli_schema(), prog="t", add_help=False)
    got = {}
    for act in parser._actions:
        got.setdefault(act.dest, []).extend(act.option_strings)
    hold("options", {k: sorted(v) for k, v in got.items()} == {k: sorted(v) for k, v in ORACLE_OPTS.items()},
         "option set differs from one-option-per-scalar-field: %r" % (got,))
    return True


def _override(p_port: int, p_name: bool, p_rate: bool, p_debug: int, p_quiet: int, p_flag: int,
              p_level: bool, p_pw: bool, preset: bool,
              ig_port: bool, ig_debug: bool, ig_flag: bool, ig_as_str: bool, via_config: bool = False) -> bool:
    schema = _cli_schema()
    cfg = schema()
    early_parser = None
    if via_config:
        # the usual sequence: build the parser (from the configuration), parse, THEN load the file, then override
        early_parser = generate_argparse_parser(cfg, prog="t", add_help=False)
    if preset:
        cfg.port = 8000
        cfg.debug = False
        cfg.sub.flag = False
        cfg.quiet = True
        cfg.sub.level_x = 9
    before = plain(cfg)
    argv = []
    want = _deepcopy(before)
    ignore = [d for d, on in (("port", ig_port), ("debug", ig_debug), ("sub.flag", ig_flag)) if on]
    if ig_as_str and ig_flag:
        ignore = []   # the bare string "sub.level_x" is the whole ignore list
    if p_port == 1:
        argv += ["--port", "8080"]
        if "port" not in ignore:
            want["port"] = 8080
    bad_port = p_port == 2
    if bad_port:
        argv += ["--port", "0"]
    if p_name:
        argv += ["--name", "alice", "--loglevel", "DEBUG", "--region", " EU "]   # valid after the fields' transforms
        want["name"] = "alice"
        want["loglevel"] = "debug"
        want["region"] = "eu"
    if p_rate:
        argv += ["--rate", "2.25"]
        want["rate"] = 2.25
    for flag, dest, sel in (("debug", "debug", p_debug), ("quiet", "quiet", p_quiet), ("sub-flag", "sub.flag", p_flag)):
        if sel == 1:
            argv.append("--" + flag)
        elif sel == 2:
            argv.append("--no-" + flag)
        if sel and dest not in ignore:
            node = want
            parts = dest.split(".")
            for part in parts[:-1]:
                node = node[part]
            node[parts[-1]] = sel == 1
    if p_level:
        argv += ["--sub-level-x", "7", "--level-x", "6"]
        want["level_x"] = 6
        if not (ig_as_str and ig_port and ig_flag):
            want["sub"]["level_x"] = 7
    if p_pw:
        argv += ["--sub-deep-pw", "hunter2"]
        want["sub"]["deep"]["pw"] = "hunter2"
    parser = early_parser or generate_argparse_parser(schema, prog="t", add_help=False)
    try:
        args = parser.parse_args(argv)
    except SystemExit:
        # every value on this command line is acceptable to its field: the parser must not refuse it itself
        return hold("override", False, lambda: "the generated parser refused the command line %r" % (argv,))
    # a bare string names ONE option: "port", or (ig_flag too) "sub.level_x", of which "level_x" is a substring
    ign = ("sub.level_x" if ig_flag else "port") if ig_as_str else ignore
    try:
        cmdline_args_override(cfg, args, ignore=ign)
    except ValidationError:
        return hold("override", bad_port and "port" not in ignore, "valid command line rejected")
    hold("override", not (bad_port and "port" not in ignore), "out-of-range --port accepted without validation")
    hold("override", plain(cfg) == want, "after override: %r, expected %r (argv %r, ignore %r)" % (plain(cfg), want, argv, ign))
    return True


def _deepcopy(x):
    if isinstance(x, dict):
        return {k: _deepcopy(v) for k, v in x.items()}
    if isinstance(x, list):
        return [_deepcopy(v) for v in x]
    return x


def _make(p_debug: int, p_flag: int):
    @obligation(prop="C16", name="cmdline_override_d%d_f%d" % (p_debug, p_flag), group="cmdline_override",
                sites=("override",), budget={"quick": 500, "thorough": 900},
                encodes=["cincoconfig.support.generate_argparse_parser", "cincoconfig.support.cmdline_args_override",
                         "cincoconfig.core.Config.__setitem__"],
                what="real command lines over the generated parser (scalar options absent/present/invalid; boolean "
                     "switches absent/on/off, fixed per obligation) with a symbolic ignore list (none, list, bare "
                     "string): after the override every field == (supplied and not ignored ? validated value : "
                     "previous value), from the default state and from a preset state")
    def ob(p_port: int, p_scalars: bool, p_pw: bool, preset: bool, ig: int, via_config: bool) -> bool:
        """
        pre: 0 <= p_port <= 2 and 0 <= ig <= 5
        post: _
        """
        if via_config and (ig or not preset):
            skip("parser built from the configuration before it changes: explored with a preset state, no ignore list")
        # ig: 0 none, 1 ["port"], 2 "port" (bare string), 3 ["debug"], 4 ["sub.flag"], 5 "sub.level_x" (bare string)
        return _override(p_port, p_scalars, p_scalars, p_debug, p_debug, p_flag, p_scalars, p_pw, preset,
                         ig in (1, 2, 5), ig == 3, ig in (4, 5), ig in (2, 5), via_config)


for _d in (0, 1, 2):
    for _f in (0, 1, 2):
        _make(_d, _f)


# --------------------------------------------------------------------------- fields without a stored value
@obligation(prop="C16", sites=("member",), budget={"quick": 60, "thorough": 120},
            encodes=["cincoconfig.support.get_all_fields", "cincoconfig.core.Config.__contains__",
                     "cincoconfig.core.Config.__getitem__"],
            what="virtual and instance-method fields (at the root or in a nested schema, symbolic) are enumerated, "
                 "resolve on the schema, are readable by dotted path and attribute, and pass the membership test "
                 "like every other enumerated path; undeclared siblings do not")
def valueless_fields_are_members(nested: bool, kind: int, with_plain: bool) -> bool:
    """
    pre: 0 <= kind <= 1
    post: _
    """
    from cincoconfig import InstanceMethodField, VirtualField
    schema = Schema()
    owner = schema.sec if nested else schema
    if with_plain:
        owner.plain = IntField(default=3)
    if kind == 0:
        owner.v = VirtualField(lambda cfg: 42)
    else:
        owner.v = InstanceMethodField(lambda cfg, x=1: x + 41)
    path = "sec.v" if nested else "v"
    paths = [p for p, _, _ in get_all_fields(schema)]
    hold("member", path in paths, "field without a stored value is not enumerated")
    cfg = schema()
    hold("member", schema[path] is owner._fields["v"] and item_ref_path(owner._fields["v"]) == path, "path does not resolve")
    got = cfg[path]
    direct = cfg.sec.v if nested else cfg.v
    val = got if kind == 0 else got()
    val2 = direct if kind == 0 else direct()
    hold("member", val == 42 and val2 == 42, "dotted read != attribute read")
    for p in paths:
        hold("member", p in cfg, lambda: "enumerated path %r fails the membership test" % (p,))
    hold("member", ("sec.w" if nested else "w") not in cfg, "membership true for an undeclared sibling")
    return True


# --------------------------------------------------------------------------- command line and environment together
@obligation(prop="C16", sites=("override",), stubs=("FakeEnviron",), budget={"quick": 120, "thorough": 240},
            encodes=["cincoconfig.support.cmdline_args_override", "cincoconfig.support.generate_argparse_parser"],
            what="fields bound to environment variables (schema prefix; root and nested; the variable set or not): "
                 "an option supplied on the command line overrides the field - the variable's value is what was "
                 "there before, not a veto - and options that were not supplied leave the variable's value in place")
def cmdline_override_beats_environment(nested: bool, var_set: bool, supplied: bool, other_supplied: bool) -> bool:
    """
    post: _
    """
    from vf.hlib.stubs import fake_environ
    environ = {}
    if var_set:
        environ["APP_SEC_PORT" if nested else "APP_PORT"] = "9000"
        environ["APP_NAME"] = "envname"
    with fake_environ(environ):
        schema = Schema(env="APP")
        owner = schema.sec if nested else schema
        owner.port = IntField(default=80, min=1)
        schema.name = StringField(default="dflt")
        schema.free = IntField(default=5, env=False)
        cfg = schema()
        start_port = 9000 if var_set else 80
        owner_cfg = cfg.sec if nested else cfg
        hold("override", owner_cfg.port == start_port, "unexpected start value")
        parser = generate_argparse_parser(schema, prog="t", add_help=False)
        argv = []
        if supplied:
            argv += ["--sec-port" if nested else "--port", "8080"]
        if other_supplied:
            argv += ["--free", "6"]
        args = parser.parse_args(argv)
        cmdline_args_override(cfg, args)
        owner_cfg = cfg.sec if nested else cfg
        hold("override", owner_cfg.port == (8080 if supplied else start_port),
             lambda: "port is %r after the override (supplied: %r, variable set: %r)" % (owner_cfg.port, supplied, var_set))
        hold("override", cfg.free == (6 if other_supplied else 5), "unbound option not applied")
        hold("override", cfg.name == ("envname" if var_set else "dflt"), "a field that was not supplied changed")
    return True
