"""C06 - a rejected operation leaves the configuration exactly as it was."""
import json
from typing import Optional

from cincoconfig import (DictField, FeatureFlagField, IncludeField, IntField, ListField, Schema, StringField, get_all_fields,
                         is_value_defined)
from cincoconfig.core import Config, ValidationError

from vf.hlib import hold, obligation, skip
from vf.hlib.stubs import FakeFS, MemStore, make_type_nt, plain

ENC = ["cincoconfig.core.Config._set_value"]
BAD = (-1, "x", [1], True, {"q": 1})


def _schema(with_ct: bool = True):
    item = Schema()
    item.w = IntField(default=0)
    item.v = IntField(min=0, default=0)
    schema = Schema()
    schema.inc = IncludeField(startdir="/cfg")
    schema.a = IntField(min=0, default=1)
    schema.s.b = IntField(min=0, default=2)
    schema.s.name = StringField(default="n")
    schema.s.inc = IncludeField(startdir="/cfg")
    schema.s.t.c = IntField(min=0, default=3)
    schema.v.limit = IntField(default=10)      # sub-configuration with a schema-level validator
    schema.v.used = IntField(default=1)
    schema.r.must = IntField(required=True)   # ... and one with a required field that has no default
    schema.r.opt = IntField(default=0)
    schema.dyn = Schema(dynamic=True)           # a dynamic section: may hold undeclared keys
    schema.dyn.known = IntField(default=0)

    def _used_le_limit(cfg):
        if cfg.used is not None and cfg.limit is not None and cfg.used > cfg.limit:
            raise ValueError("used > limit")
    schema.v._validators.append(_used_le_limit)
    schema.lst = ListField(IntField(min=0), default=lambda: [1])
    schema.d = DictField(StringField(), IntField(min=0), default=lambda: {"k": 1})
    schema.items = ListField(item, default=lambda: [])
    ti = Schema()
    ti.w = IntField(default=0)
    ti.v = IntField(min=0, default=0)
    schema.titems = ListField(make_type_nt(ti, "TI"), default=lambda: [])   # items that compare by VALUE
    schema.s.enabled = FeatureFlagField(default=True)
    T = None
    if with_ct:
        t = Schema()
        t.v = IntField(min=0, default=0)
        t.w = IntField(min=0, default=5)
        T = make_type_nt(t, "T")
        schema.ct = T
    return schema, T


def _walk(cfg: Config, prefix: str, out_defined: dict, out_ids: list):
    for key, value in cfg:
        path = prefix + key
        out_defined[path] = is_value_defined(cfg, key)
        if isinstance(value, Config):
            out_ids.append((path, id(value)))
            _walk(value, path + ".", out_defined, out_ids)
        elif isinstance(value, list):
            for n, it in enumerate(value):
                if isinstance(it, Config):
                    out_ids.append((path + "[%d]" % n, id(it)))


def snap(cfg: Config):
    defined, ids = {}, []
    _walk(cfg, "", defined, ids)
    return plain(cfg), defined, ids


def _state(cfg: Config, sa: bool, sb: bool, sl: bool, si: bool, x: int):
    """an arbitrary valid state: some fields user-defined with symbolic valid values"""
    if sa:
        cfg.a = x
        cfg.dyn.extra = x            # an undeclared key picked up at run time
        cfg.dyn.known = x
    if sb:
        cfg.s.b = x + 1
        cfg.s.t.c = x
    if sl:
        cfg.lst = [x, x + 2]
        cfg.d = {"k": x, "j": 0}
    if si:
        cfg.items = [{"v": x}, {"v": 1}]
        cfg.ct.v = x
        cfg.r.must = x
        cfg.v.limit = x + 5
        cfg.titems = [{"w": 99}, {"w": 1}, {"w": 99}]     # first and last equal; equal to a half-loaded {"w": 99}


OPS = ("attr", "dotted", "submap", "submap_partial", "sub_wrongtype", "ct_map", "ct_ctor", "l_append", "l_insert",
       "l_setitem", "d_setitem", "d_setdefault", "items_append", "items_setitem", "ctor_kw",
       "submap_validator", "submap_required", "dotted_submap_validator", "load_tree_nested_validator",
       "items_setitem_partial", "items_append_partial", "items_insert_partial",
       "titems_insert_partial", "titems_setitem_partial", "titems_append_partial",
       "sub_config_object_required", "sub_config_object_validator", "dotted_config_object")


def _rejected(op: str, bad_i: int, sa: bool, sb: bool, sl: bool, si: bool, x: int) -> bool:
    bad = BAD[0]
    for i in range(len(BAD)):
        if bad_i == i:
            bad = BAD[i]
    schema, T = _schema()
    cfg = schema()
    _state(cfg, sa, sb, sl, si, x)
    before = snap(cfg)
    try:
        if op == "attr":
            cfg.a = bad
        elif op == "dotted":
            cfg["s.t.c"] = bad
        elif op == "submap":
            cfg.s = {"b": bad}
        elif op == "submap_partial":
            cfg.s = {"b": 77, "name": "new", "t": {"c": bad}}
        elif op == "sub_wrongtype":
            if isinstance(bad, dict):
                skip("a map is not a wrong type here")
            cfg.s = bad
        elif op == "ct_map":
            cfg.ct = {"w": 9, "v": bad}
        elif op == "ct_ctor":
            T(cfg, w=9, v=bad)
        elif op == "l_append":
            cfg.lst.append(bad)
        elif op == "l_insert":
            cfg.lst.insert(0, bad)
        elif op == "l_setitem":
            cfg.lst[0] = bad
        elif op == "d_setitem":
            cfg.d["k"] = bad
        elif op == "d_setdefault":
            cfg.d.setdefault("new", bad)
        elif op == "items_append":
            cfg.items.append({"v": bad})
        elif op == "items_setitem":
            if not si:
                skip("needs an item")
            cfg.items[0] = {"v": bad}
        elif op == "items_setitem_partial":
            if not si:
                skip("needs an item")
            cfg.items[0] = {"w": 99, "v": bad}   # an acceptable entry first, then the rejected one
        elif op in ("titems_insert_partial", "titems_setitem_partial", "titems_append_partial"):
            if not si:
                skip("needs items")
            if op == "titems_insert_partial":
                cfg.titems.insert(2, {"w": 99, "v": bad})
            elif op == "titems_setitem_partial":
                cfg.titems[1] = {"w": 99, "v": bad}
            else:
                cfg.titems.append({"w": 99, "v": bad})
        elif op == "items_append_partial":
            cfg.items.append({"w": 99, "v": bad})
        elif op == "items_insert_partial":
            cfg.items.insert(0, {"w": 99, "v": bad})
        elif op == "ctor_kw":
            schema(a=5, lst=[1], s={"b": bad})
        elif op == "submap_validator":
            # every entry is valid on its own; the resulting sub-configuration fails its schema validator
            cfg.v = {"limit": 1, "used": 2}
        elif op == "submap_required":
            cfg.r = {"opt": 4}   # valid entries, but the required field stays unset: rejected by whole-config validation
        elif op == "dotted_submap_validator":
            cfg["v"] = {"used": 99}
        elif op == "load_tree_nested_validator":
            cfg.load_tree({"v": {"limit": 1, "used": 2}})
        elif op == "sub_config_object_required":
            # a configuration OBJECT of the right schema whose required field is unset (if the library refuses it,
            # the refusal must be atomic like any other)
            cfg.r = schema.r()
        elif op in ("sub_config_object_validator", "dotted_config_object"):
            candidate = schema.v()
            candidate.limit = 1
            candidate.used = 2        # individually valid, together refused by the sub-schema's validator
            if op == "dotted_config_object":
                cfg["v"] = candidate
            else:
                cfg.v = candidate
    except Exception:  # noqa: BLE001 - which exception is C15's subject
        after = snap(cfg)
        hold("unchanged", after[0] == before[0], lambda: "values changed by a rejected %s: %r -> %r" % (op, before[0], after[0]))
        hold("unchanged", after[1] == before[1], lambda: "user-defined status changed by a rejected %s" % op)
        hold("unchanged", after[2] == before[2], lambda: "identity of nested configurations changed by a rejected %s" % op)
        return True
    if op in ("sub_config_object_required", "sub_config_object_validator", "dotted_config_object"):
        # the library may accept a configuration object as it is (it does not validate it at this point): then it IS
        # the sub-configuration now and nothing else moved
        key = "r" if op == "sub_config_object_required" else "v"
        after = snap(cfg)
        return hold("unchanged", {k: v for k, v in after[0].items() if k != key} == {k: v for k, v in before[0].items() if k != key},
                    lambda: "an accepted %s changed other fields" % op)
    skip("operation was accepted")


def _mk_rej(op: str):
    @obligation(prop="C06", name="rejected_" + op, group="rejected_assignment", sites=("unchanged",), encodes=ENC,
                budget={"quick": 400, "thorough": 800},
                examples=({"bad_i": 0, "sa": True, "sb": False, "sl": False, "si": True, "x": 3},),
                what="from an arbitrary valid state (which fields are user-defined is symbolic) one REJECTED "
                     "operation of kind %s with 5 offending value shapes leaves values at all depths, "
                     "defined-ness of every field and identity of nested configurations unchanged" % op)
    def ob(bad_i: int, sa: bool, sb: bool, sl: bool, si: bool, x: int) -> bool:
        """
        pre: 0 <= bad_i < 5 and 0 <= x <= 1000
        post: _
        """
        if not (sa or sb or sl or si) and x != 0:
            skip("x unused")
        if op in ("sub_config_object_required", "sub_config_object_validator", "dotted_config_object") and bad_i:
            skip("offending shape unused")
        return _rejected(op, bad_i, sa, sb, sl, si, x)


for _o in OPS:
    _mk_rej(_o)


# ----------------------------------------------------------------------------- document loads that fail
def _doc_tree():
    return {"a": 5, "s": {"b": 6, "name": "zz", "t": {"c": 7}}, "lst": [3, 4], "d": {"k": 2}, "items": [{"v": 8}],
            "r": {"must": 1}}


@obligation(prop="C06", sites=("unchanged",), stubs=("FakeFS", "MemFormat"),
            encodes=["cincoconfig.core.Config.loads", "cincoconfig.core.Config._process_includes",
                     "cincoconfig.fields.include_field.IncludeField.include"],
            budget={"quick": 300, "thorough": 600},
            examples=({"where": 0, "kind": 0, "sa": True, "sb": False, "x": 1},
                      {"where": 1, "kind": 2, "sa": False, "sb": True, "x": 1}),
            what="Config.loads whose include file (root or nested scope) is missing / a directory / unreadable / not "
                 "a document, also when an EARLIER include resolved fine, or whose main document is unknown to the "
                 "parser: raises and leaves the configuration unchanged (include field values included)")
def failed_include_unchanged(where: int, kind: int, sa: bool, sb: bool, x: int) -> bool:
    """
    pre: 0 <= where <= 5 and 0 <= kind <= 2 and 0 <= x <= 1000
    post: _
    """
    fs = FakeFS(dirs=["/cfg", "/cfg/dir"], unreadable=["/cfg/secret.mem"])
    mem = MemStore()
    fs.files["/cfg/secret.mem"] = mem.put({"a": 1})
    schema, T = _schema(with_ct=False)
    with fs.patched(), mem.registered():
        cfg = schema()
        _state(cfg, sa, sb, False, False, x)
        before = snap(cfg)
        path = ("missing.mem", "/cfg/dir", "secret.mem")[0]
        for i, cand in enumerate(("missing.mem", "/cfg/dir", "secret.mem")):
            if kind == i:
                path = cand
        tree = _doc_tree()
        if where == 5:
            # the document switches a feature flag; an include processed LATER cannot be resolved
            tree["s"]["enabled"] = False
            tree["s"]["inc"] = path
            doc = mem.put(tree)
        elif where == 3:
            # first include resolves and parses, a LATER one (nested scope) fails
            fs.files["/cfg/good.mem"] = mem.put({"a": 9})
            tree["inc"] = "good.mem"
            tree["s"]["inc"] = path
            doc = mem.put(tree)
        elif where == 4:
            # the include file exists but is not a document of the format
            fs.files["/cfg/garbage.mem"] = b"MEM:garbage"
            tree["inc"] = "garbage.mem"
            doc = mem.put(tree)
        elif where == 0:
            tree["inc"] = path
            doc = mem.put(tree)
        elif where == 1:
            tree["s"]["inc"] = path
            doc = mem.put(tree)
        else:
            doc = b"MEM:not-a-document"
        try:
            cfg.loads(doc, format="mem")
        except Exception:  # noqa: BLE001
            after = snap(cfg)
            hold("unchanged", after == before, lambda: "failed load changed the configuration: %r -> %r" % (before[0], after[0]))
            return True
        hold("unchanged", False, "load with an unresolvable include succeeded")
    return True


def _real_doc(fmt: str) -> bytes:
    schema, _ = _schema(with_ct=False)
    cfg = schema()
    cfg.load_tree(_doc_tree())
    return cfg.dumps(format=fmt)


DOCS = {}


CHUNK = 64


def _mk_trunc(fmt: str, chunk: int):
    lo_k, hi_k = chunk * CHUNK, (chunk + 1) * CHUNK

    @obligation(prop="C06", name="truncated_document_%s_%d" % (fmt, chunk), group="truncated_document_" + fmt,
                sites=("unchanged",), encodes=["cincoconfig.core.Config.loads"],
                budget={"quick": 900, "thorough": 1500},
                what="a valid %s document truncated at every index k in [%d,%d) (k decided by the solver over its "
                     "finite domain; the parser itself is C / third-party code and runs concretely), wrong XML root, "
                     "undecodable bytes: a load that fails to PARSE leaves the configuration unchanged (loads that "
                     "parse and then fail validation are outside the property)" % (fmt, lo_k, hi_k))
    def ob(k: int, variant: int, sa: bool) -> bool:
        """
        pre: 0 <= k < 64 and 0 <= variant <= 2
        post: _
        """
        full = DOCS[fmt]
        kk = k + lo_k
        if variant == 0:
            if kk >= len(full):
                skip("beyond the document")
            doc = full[:kk]
        elif variant == 1:
            if k or chunk or fmt != "xml":
                skip("wrong root: xml only")
            doc = full.replace(b"<config", b"<other").replace(b"</config", b"</other")
        else:
            if k or chunk:
                skip("one undecodable document")
            doc = b"\xff\xfe\x00garbage\x80"
        schema, _ = _schema(with_ct=False)
        cfg = schema()
        _state(cfg, sa, False, False, False, 3)
        before = snap(cfg)
        try:
            cfg.loads(doc, format=fmt)
        except ValidationError:
            skip("parsed, then failed validation: outside the property")
        except Exception:  # noqa: BLE001
            after = snap(cfg)
            hold("unchanged", after == before, lambda: "failed parse changed the configuration (k=%r)" % (kk,))
            return True
        skip("document still parses")


for _f in ("json", "xml", "yaml", "bson", "pickle"):
    DOCS[_f] = _real_doc(_f)
    for _c in range((len(DOCS[_f]) + CHUNK - 1) // CHUNK):
        _mk_trunc(_f, _c)
