"""C05 - per field class: validation accepts exactly the oracle set, is idempotent, on-disk form is invertible."""
import ipaddress
from typing import Optional

from cincoconfig import (BoolField, BytesField, ChallengeField, FilenameField, HostnameField, IPv4AddressField, IPv4NetworkField,
                         PortField, Schema, SecureField, StringField, UrlField)

from vf.hlib import TIER, hold, known, obligation, skip
from vf.hlib.stubs import FakeFS


def _cfg():
    return Schema()()


def _check_idempotent(field, cfg, r, site="accept"):
    """validating an accepted result again returns an equal value and never rejects it"""
    try:
        r2 = field.validate(cfg, r)
    except ValueError:
        hold(site, False, lambda: "an accepted result %r is rejected when validated again" % (r,))
    hold(site, r2 == r and type(r2) is type(r), lambda: "validate is not idempotent: %r -> %r" % (r, r2))
    back = field.to_python(cfg, field.to_basic(cfg, r))
    hold(site, back == r and type(back) is type(r), lambda: "to_python(to_basic(%r)) = %r" % (r, back))


# --------------------------------------------------------------------------- StringField
STRIPS = (None, True, "x", "a")
CASES = (None, "lower", "upper")


def _string_oracle(v, lo, hi, choices, strip, case, required):
    """('ok', normal form) | ('reject',) from the documented option semantics and their documented order"""
    if not isinstance(v, str):
        return ("reject",)
    if strip is True:
        v = v.strip()
    elif isinstance(strip, str):
        v = v.strip(strip)
    if required and not v:
        return ("reject",)
    if case == "lower":
        v = v.lower()
    elif case == "upper":
        v = v.upper()
    if lo is not None and len(v) < lo:
        return ("reject",)
    if hi is not None and len(v) > hi:
        return ("reject",)
    if choices and v not in choices:
        return ("reject",)
    return ("ok", v)


def _mk_string(si: int, ci: int):
    strip, case = STRIPS[si], CASES[ci]

    @obligation(prop="C05", name="string_exact_s%d_c%d" % (si, ci), group="string_exact",
                sites=("accept", "reject"), regions=("strip_chars_then_case",),
                encodes=["cincoconfig.fields.string_field.StringField._validate", "cincoconfig.core.Field.validate"],
                budget={"quick": 500, "thorough": 1500}, may_be_partial=True,
                what="StringField(min_len, max_len in Optional[0..3], choices none|2 strings, required, "
                     "transform_strip=%r, transform_case=%r) on a symbolic string |v|<=2 (full Unicode model): accepts "
                     "exactly what the documented option semantics accept, returns the documented normal form, and "
                     "validating that result again returns it unchanged" % (strip, case))
    def ob(v: str, lo: Optional[int], hi: Optional[int], use_choices: bool, required: bool) -> bool:
        """
        pre: len(v) <= 2
        pre: (lo is None or 0 <= lo <= 3) and (hi is None or 0 <= hi <= 3)
        post: _
        """
        if case is not None and TIER == "quick" and len(v) > 1:
            skip("quick tier: |v| <= 1 when a case transform is configured (str.lower/upper cost minutes of solver time)")
        choices = ["ab", "X"] if use_choices else None
        field = StringField(min_len=lo, max_len=hi, choices=choices, transform_strip=strip, transform_case=case,
                            required=required)
        cfg = _cfg()
        want = _string_oracle(v, lo, hi, choices, strip, case, required)
        # known-finding region: the documented normal form again starts/ends with a strip character
        known("strip_chars_then_case", isinstance(strip, str) and case is not None and want[0] == "ok"
              and want[1].strip(strip) != want[1])
        try:
            r = field.validate(cfg, v)
        except ValueError:
            return hold("reject", want[0] == "reject", lambda: "rejected %r, documented normal form %r" % (v, want))
        hold("accept", want[0] == "ok", lambda: "accepted %r -> %r although the options exclude it" % (v, r))
        hold("accept", r == want[1], lambda: "normal form %r, documented %r" % (r, want[1]))
        _check_idempotent(field, cfg, r)
        return True


for _si in range(4):
    for _ci in range(3):
        _mk_string(_si, _ci)


NONSTR = (None, 5, 2.5, True, b"x", ["a"], {"a": 1})


@obligation(prop="C05", sites=("accept", "reject"), budget={"quick": 60, "thorough": 120},
            encodes=["cincoconfig.fields.string_field.StringField._validate", "cincoconfig.core.Field.validate"],
            what="StringField / UrlField on values of every other Python type (None, int, float, bool, "
                 "bytes, list, dict) with and without required: only None (not required) passes through unchanged")
def string_wrong_types(i: int, required: bool, which: int) -> bool:
    """
    pre: 0 <= i < 7 and 0 <= which <= 1
    post: _
    """
    v = NONSTR[0]
    for n in range(7):
        if i == n:
            v = NONSTR[n]
    field = StringField(required=required) if which == 0 else UrlField(required=required)
    try:
        r = field.validate(_cfg(), v)
    except ValueError:
        return hold("reject", v is not None or required, "None rejected although not required")
    hold("accept", v is None and not required and r is None, lambda: "non-string %r accepted as %r" % (v, r))
    return True


# --------------------------------------------------------------------------- BoolField
TOKENS = ("t", "true", "1", "on", "yes", "y", "f", "false", "0", "off", "no", "n", "TRUE", "Yes", "oN",
          "", "2", "tru", "truee", " true", "nope", "none")


@obligation(prop="C05", sites=("accept", "reject"), budget={"quick": 120, "thorough": 300},
            encodes=["cincoconfig.fields.bool_field.BoolField._validate"],
            what="BoolField on bool / int / float (symbolic) and string tokens from a menu (all documented tokens, "
                 "case variants, near misses): documented truth table, idempotent, other types rejected")
def bool_exact(kind: int, b: bool, i: int, f: float, ti: int) -> bool:
    """
    pre: 0 <= kind <= 4 and 0 <= ti < 22
    pre: f == f
    post: _
    """
    field = BoolField()
    cfg = _cfg()
    if kind == 0:
        v, want = b, b
    elif kind == 1:
        v, want = i, i != 0
    elif kind == 2:
        v, want = f, f != 0.0
    elif kind == 3:
        v = TOKENS[0]
        for n in range(22):
            if ti == n:
                v = TOKENS[n]
        low = v.lower()
        want = True if low in ("t", "true", "1", "on", "yes", "y") else (
            False if low in ("f", "false", "0", "off", "no", "n") else None)
    else:
        v, want = [b], None
    if kind != 0 and b:
        skip("unused")
    if kind != 1 and i:
        skip("unused")
    if kind != 2 and f != 0.0:
        skip("unused")
    if kind != 3 and ti:
        skip("unused")
    try:
        r = field.validate(cfg, v)
    except ValueError:
        return hold("reject", want is None, lambda: "documented boolean token %r rejected" % (v,))
    hold("accept", want is not None and r is want, lambda: "%r -> %r, documented %r" % (v, r, want))
    _check_idempotent(field, cfg, r)
    return True


# --------------------------------------------------------------------------- IPv4 network / address / hostname
OCTETS = (0, 1, 10, 255, 256, -1)


def _octet(i):
    for n in range(len(OCTETS)):
        if i == n:
            return OCTETS[n]
    skip("menu")


@obligation(prop="C05", sites=("accept", "reject"), budget={"quick": 280, "thorough": 700},
            encodes=["cincoconfig.fields.net_field.IPv4NetworkField._validate"],
            what="IPv4NetworkField(min_prefix_len, max_prefix_len in Optional[0..32], symbolic) on structured input "
                 "A.0.0.0/p (A from a boundary menu, p symbolic in -1..33): accepted iff A in 0..255, p in 0..32 and "
                 "min <= p <= max (prefix bounds 0 and 32 included); result is the canonical text, idempotent")
def ipv4_network_exact(ai: int, p: int, lo: Optional[int], hi: Optional[int]) -> bool:
    """
    pre: 0 <= ai < 6 and -1 <= p <= 33
    pre: (lo is None or 0 <= lo <= 32) and (hi is None or 0 <= hi <= 32)
    post: _
    """
    a = _octet(ai)
    ptxt = None
    for cand in range(-1, 34):  # p is decided by the solver; its decimal text is built from the decided value
        if p == cand:           # (CrossHair's model of str(<symbolic int>) compared unequal to the concrete text)
            ptxt = str(cand)
    text = str(a) + ".0.0.0/" + ptxt
    field = IPv4NetworkField(min_prefix_len=lo, max_prefix_len=hi)
    cfg = _cfg()
    # host bits must be zero for a network: A.0.0.0/p has host bits set iff p < 8 and A has bits below the prefix
    valid_syntax = 0 <= a <= 255 and 0 <= p <= 32
    if valid_syntax and p < 8 and (a & ((1 << (8 - p)) - 1)) != 0:
        valid_syntax = False  # e.g. 1.0.0.0/4 has host bits set: rejected by the address library by design
    want = valid_syntax and (lo is None or p >= lo) and (hi is None or p <= hi)
    try:
        r = field.validate(cfg, text)
    except ValueError:
        return hold("reject", not want, lambda: "%s rejected by IPv4NetworkField(min=%r, max=%r)" % (text, lo, hi))
    hold("accept", want, lambda: "%s accepted by IPv4NetworkField(min_prefix_len=%r, max_prefix_len=%r)" % (text, lo, hi))
    hold("accept", r == text, lambda: "canonical form %r != %r" % (r, text))
    _check_idempotent(field, cfg, r)
    return True


@obligation(prop="C05", sites=("accept", "reject"), budget={"quick": 200, "thorough": 500},
            examples=({"a": 1, "b": 0, "c": 3, "d": 2, "allow": False, "which": 0},
                      {"a": 1, "b": 0, "c": 3, "d": 2, "allow": True, "which": 1}),
            encodes=["cincoconfig.fields.net_field.IPv4AddressField._validate",
                     "cincoconfig.fields.net_field.HostnameField._validate"],
            what="IPv4AddressField and HostnameField(allow_ipv4 in {True, False}) on structured dotted quads with "
                 "octets from a boundary menu (0,1,10,255,256,-1): address accepted iff all octets in 0..255 and "
                 "returned canonical; host field accepts an address iff allow_ipv4; idempotent")
def ipv4_address_and_host(a: int, b: int, c: int, d: int, allow: bool, which: int) -> bool:
    """
    pre: 0 <= a < 6 and 0 <= b < 6 and 2 <= c < 6 and 2 <= d < 6 and 0 <= which <= 1
    post: _
    """
    if (a in (1, 2) and b in (1, 2)) and (c, d) != (2, 2):
        skip("interior octet values: one representative combination")
    octs = [_octet(a), _octet(b), _octet(c), _octet(d)]
    text = ".".join(str(o) for o in octs)
    is_addr = all(0 <= o <= 255 for o in octs)
    cfg = _cfg()
    if which == 0:
        if allow:
            skip("allow unused")
        field = IPv4AddressField()
        want = is_addr
    else:
        field = HostnameField(allow_ipv4=allow)
        # not an address: judged as a host name: DNS-looking [a-zA-Z0-9][a-zA-Z0-9.-]+ or NetBIOS (<=15 chars, incl. -)
        looks_dns = not text.startswith("-")
        looks_nb = len(text) <= 15
        want = allow if is_addr else (looks_dns or looks_nb)
    try:
        r = field.validate(cfg, text)
    except ValueError:
        return hold("reject", not want, lambda: "%r rejected by %s" % (text, type(field).__name__))
    hold("accept", want, lambda: "%r accepted by %s(allow_ipv4=%r)" % (text, type(field).__name__, allow))
    hold("accept", r == text, lambda: "canonical form %r != %r" % (r, text))
    _check_idempotent(field, cfg, r)
    return True


@obligation(prop="C05", sites=("accept", "reject"), budget={"quick": 60, "thorough": 120},
            encodes=["cincoconfig.fields.net_field.PortField.__init__", "cincoconfig.fields.number_field.NumberField._validate"],
            what="PortField: accepted iff 1 <= v <= 65535 (symbolic int), idempotent")
def port_exact(v: int) -> bool:
    """
    post: _
    """
    field = PortField()
    cfg = _cfg()
    try:
        r = field.validate(cfg, v)
    except ValueError:
        return hold("reject", not 1 <= v <= 65535, "valid port rejected")
    hold("accept", 1 <= v <= 65535 and r == v, "invalid port accepted")
    _check_idempotent(field, cfg, r)
    return True


# --------------------------------------------------------------------------- BytesField
BLOBS = (b"", b"\x00", b"\xfe\xff", b"abc", b"YWJj", b"\x00" * 7, bytes(range(256)))


@obligation(prop="C05", sites=("accept", "reject"), budget={"quick": 60, "thorough": 120},
            encodes=["cincoconfig.fields.bytes_field.BytesField._validate", "cincoconfig.fields.bytes_field.BytesField.to_basic",
                     "cincoconfig.fields.bytes_field.BytesField.to_python"],
            what="BytesField(base64|hex): bytes from a menu (empty, NUL, non-UTF-8, text-like, every byte value) and "
                 "str input are accepted and idempotent; to_python(to_basic(v)) == v; other types rejected")
def bytes_exact(bi: int, hexenc: bool, kind: int) -> bool:
    """
    pre: 0 <= bi < 7 and 0 <= kind <= 2
    post: _
    """
    field = BytesField(encoding="hex" if hexenc else "base64")
    cfg = _cfg()
    blob = BLOBS[0]
    for n in range(7):
        if bi == n:
            blob = BLOBS[n]
    if kind == 0:
        v, want = blob, blob
    elif kind == 1:
        if bi > 4:
            skip("text menu")
        v = ("", "a", "ünï", "YWJj", " x ")[bi]
        want = v.encode()
    else:
        v, want = 5, None
    try:
        r = field.validate(cfg, v)
    except ValueError:
        return hold("reject", want is None, "bytes-like value rejected")
    hold("accept", want is not None and r == want and type(r) is bytes, lambda: "%r -> %r" % (v, r))
    _check_idempotent(field, cfg, r)
    basic = field.to_basic(cfg, r)
    hold("accept", type(basic) is str, "on-disk form is not text")
    return True


# --------------------------------------------------------------------------- FilenameField
EXISTS = (None, True, False, "dir", "file")
NAMES = ("f.txt", "d", "nothing", "/abs/f.txt", "/abs/d", "/abs/nothing", "")


@obligation(prop="C05", sites=("accept", "reject"), stubs=("FakeFS",), budget={"quick": 200, "thorough": 400},
            encodes=["cincoconfig.fields.file_field.FilenameField._validate"],
            what="FilenameField(exists in None|True|False|'dir'|'file', startdir in None|'/abs') on names that are "
                 "absent / a file / a directory, relative or absolute: accepted iff the existence mode is met at the "
                 "resolved path; result = resolved absolute path when a start directory applies; idempotent")
def filename_exact(ei: int, ni: int, use_start: bool) -> bool:
    """
    pre: 0 <= ei < 5 and 0 <= ni < 7
    post: _
    """
    exists, name = EXISTS[0], NAMES[0]
    for n in range(5):
        if ei == n:
            exists = EXISTS[n]
    for n in range(7):
        if ni == n:
            name = NAMES[n]
    # (relative names without a start directory are looked up as given: the fake file system holds them as such)
    fs = FakeFS(files={"/abs/f.txt": b"x", "f.txt": b"y"}, dirs=["/abs", "/abs/d", "d"])
    with fs.patched():
        field = FilenameField(exists=exists, startdir="/abs" if use_start else None)
        cfg = _cfg()
        if name == "":
            resolved = ""
        elif name.startswith("/"):
            resolved = name
        elif use_start:
            resolved = "/abs/" + name
        else:
            resolved = name  # relative to the working directory: validated as given
        is_file = resolved in fs.files
        is_dir = resolved in fs.dirs
        if name == "":
            want = True
        elif exists is None:
            want = True
        elif exists is True:
            want = is_file or is_dir
        elif exists is False:
            want = not (is_file or is_dir)
        elif exists == "dir":
            want = is_dir
        else:
            want = is_file
        try:
            r = field.validate(cfg, name)
        except ValueError:
            return hold("reject", not want, lambda: "%r rejected (exists=%r, resolved %r)" % (name, exists, resolved))
        hold("accept", want, lambda: "%r accepted (exists=%r, resolved %r)" % (name, exists, resolved))
        hold("accept", r == resolved, lambda: "result %r, resolved path %r" % (r, resolved))
        _check_idempotent(field, cfg, r)
    return True


# --------------------------------------------------------------------------- UrlField
URLS = (("http://example.com", True), ("https://a.b/c?d=e#f", True), ("ftp://x", True), ("mailto:a@b", True),
        ("example.com", False), ("//example.com/path", False), ("/just/a/path", False), ("", None),
        ("http://[::1", False), ("1http://x", False))


@obligation(prop="C05", sites=("accept", "reject"), budget={"quick": 60, "thorough": 120},
            encodes=["cincoconfig.fields.url_field.UrlField._validate"],
            what="UrlField on a menu of URLs with and without a scheme, a malformed bracket host and the empty "
                 "string: accepted iff a scheme is present (empty: iff not required); unchanged and idempotent")
def url_exact(ui: int, required: bool) -> bool:
    """
    pre: 0 <= ui < 10
    post: _
    """
    text, has_scheme = URLS[0]
    for n in range(10):
        if ui == n:
            text, has_scheme = URLS[n]
    field = UrlField(required=required)
    cfg = _cfg()
    want = has_scheme if has_scheme is not None else False
    try:
        r = field.validate(cfg, text)
    except ValueError:
        return hold("reject", not want, lambda: "URL %r rejected" % (text,))
    hold("accept", want, lambda: "%r accepted as a URL" % (text,))
    hold("accept", r == text, "URL changed by validation")
    _check_idempotent(field, cfg, r)
    return True


# --------------------------------------------------------------------------- case transforms that change the length
SPECIAL = ("\u00df", "\u00dfa", "\ufb03", "\u0130", "\u01f0", "a\u00df", "ab", "")


@obligation(prop="C05", sites=("accept", "reject"), budget={"quick": 120, "thorough": 300},
            encodes=["cincoconfig.fields.string_field.StringField._validate"],
            what="StringField(transform_case, min_len/max_len symbolic in 0..4) on strings whose case mapping changes "
                 "their length (sharp s, ligature, dotted capital I, ...): the length constraint applies to the "
                 "normalised value that is returned and stored; the result validates again")
def string_case_changes_length(si: int, upper: bool, lo: Optional[int], hi: Optional[int]) -> bool:
    """
    pre: 0 <= si < 8
    pre: (lo is None or 0 <= lo <= 4) and (hi is None or 0 <= hi <= 4)
    post: _
    """
    v = SPECIAL[0]
    for n in range(8):
        if si == n:
            v = SPECIAL[n]
    case = "upper" if upper else "lower"
    field = StringField(min_len=lo, max_len=hi, transform_case=case)
    cfg = _cfg()
    want = _string_oracle(v, lo, hi, None, None, case, False)
    try:
        r = field.validate(cfg, v)
    except ValueError:
        return hold("reject", want[0] == "reject", lambda: "rejected %r, documented %r" % (v, want))
    hold("accept", want[0] == "ok" and r == want[1], lambda: "%r -> %r, documented %r" % (v, r, want))
    hold("accept", (lo is None or len(r) >= lo) and (hi is None or len(r) <= hi),
         lambda: "returned value %r violates the declared length bounds (%r, %r)" % (r, lo, hi))
    _check_idempotent(field, cfg, r)
    return True


# --------------------------------------------------------------------------- containers whose keys/items are encoded
@obligation(prop="C05", sites=("rt",), budget={"quick": 120, "thorough": 300},
            encodes=["cincoconfig.fields.dict_field.DictField.to_basic", "cincoconfig.fields.dict_field.DictField.to_python",
                     "cincoconfig.fields.list_field.ListField.to_basic", "cincoconfig.fields.list_field.ListField.to_python"],
            what="typed containers whose KEYS, values or items have a non-trivial on-disk form (Dict(Bytes hex -> Int), "
                 "Dict(Str -> Bytes), List(Bytes), List(List(Bytes)), List(Secure), Dict(Str -> Secure), List(Challenge)): to_python(to_basic(v)) == v, menu of byte strings")
def container_codec_inverse(bi: int, bj: int, n: int) -> bool:
    """
    pre: 0 <= bi < 7 and 0 <= bj < 7 and 0 <= n <= 2
    post: _
    """
    from cincoconfig import DictField, IntField, ListField
    b1 = b2 = BLOBS[0]
    for k in range(7):
        if bi == k:
            b1 = BLOBS[k]
        if bj == k:
            b2 = BLOBS[k]
    from vf.hlib.stubs import untraced
    cnt = 0
    for k in range(3):
        if n == k:
            cnt = k
    n = cnt
    with untraced():   # concrete menu values from here on
        return _codec_inverse(b1, b2, n)


def _codec_inverse(b1: bytes, b2: bytes, n: int) -> bool:
    from cincoconfig import DictField, IntField, ListField
    schema = Schema()
    schema.dk = DictField(BytesField(encoding="hex"), IntField())
    schema.dv = DictField(StringField(), BytesField())
    schema.lb = ListField(BytesField())
    schema.ll = ListField(ListField(BytesField(encoding="hex")))
    schema.ls = ListField(SecureField(method="xor"))
    schema.ds = DictField(StringField(), SecureField(method="xor"))
    schema.lc = ListField(ChallengeField("md5"))
    fs = FakeFS(files={"/k/c05.key": bytes(range(1, 33))}, dirs=["/k"])
    with fs.patched():
        return _codec_inverse_body(schema, b1, b2, n)


def _codec_inverse_body(schema, b1: bytes, b2: bytes, n: int) -> bool:
    cfg = schema(key_filename="/k/c05.key")
    cfg.dk = dict([(b1, 1), (b2, 2)][:n])
    cfg.dv = dict([("a", b1), ("b", b2)][:n])
    cfg.lb = [b1, b2][:n]
    cfg.ll = [[b1], [b2, b1]][:n]
    cfg.ls = ["s3cret", "pw"][:n]
    cfg.ds = dict([("a", "s3cret"), ("b", "pw")][:n])
    cfg.lc = ["s3cret"][:n]
    for key in ("ls", "ds", "lc"):
        field = schema[key]
        val = cfg[key]
        back = field.to_python(cfg, field.to_basic(cfg, val))
        if key == "lc":
            same = len(back) == len(val) and all(a.salt == b.salt and a.digest == b.digest for a, b in zip(back, val))
        else:
            same = (dict(back) == dict(val)) if key == "ds" else (list(back) == list(val))
        hold("rt", same, lambda: "%s: to_python(to_basic(%r)) = %r" % (key, val, back))
    for key in ("dk", "dv", "lb", "ll"):
        field = schema[key]
        val = cfg[key]
        basic = field.to_basic(cfg, val)
        back = field.to_python(cfg, basic)
        same = (dict(back) == dict(val)) if key.startswith("d") else ([list(i) if isinstance(i, list) else i for i in back]
                                                                      == [list(i) if isinstance(i, list) else i for i in val])
        hold("rt", same, lambda: "%s: to_python(to_basic(%r)) = %r (on-disk %r)" % (key, val, back, basic))
    return True


# --------------------------------------------------------------------------- validation has no memory
@obligation(prop="C05", sites=("second",), budget={"quick": 200, "thorough": 400},
            encodes=["cincoconfig.fields.net_field.IPv4NetworkField._validate",
                     "cincoconfig.fields.string_field.StringField._validate"],
            what="the verdict of a field depends only on its own options and the value, not on what other field "
                 "instances (or the same instance) validated before: a permissive field first validates v, then a "
                 "strict field of the same class must still judge v by its own options (IPv4Network prefix bounds, "
                 "String choices/length, Int bounds, Hostname allow_ipv4); bounds symbolic, order symbolic")
def validation_has_no_memory(which: int, p: int, lo: Optional[int], hi: Optional[int], strict_first: bool) -> bool:
    """
    pre: 0 <= which <= 3 and 0 <= p <= 32
    pre: (lo is None or 0 <= lo <= 32) and (hi is None or 0 <= hi <= 32)
    post: _
    """
    from cincoconfig import IntField
    cfg = _cfg()
    if which == 0:
        ptxt = None
        for cand in range(0, 33):
            if p == cand:
                ptxt = str(cand)
        v = "0.0.0.0/" + ptxt
        loose, strict = IPv4NetworkField(), IPv4NetworkField(min_prefix_len=lo, max_prefix_len=hi)
        want = (lo is None or p >= lo) and (hi is None or p <= hi)
    elif which == 1:
        v = "abc" if p % 2 else "zz"
        loose, strict = StringField(), StringField(choices=["abc"], max_len=hi)
        want = v == "abc" and (hi is None or 3 <= hi)
        if lo is not None:
            skip("unused")
    elif which == 2:
        v = p
        loose, strict = IntField(), IntField(min=lo, max=hi)
        want = (lo is None or p >= lo) and (hi is None or p <= hi)
    else:
        v = "10.0.0.1"
        loose, strict = HostnameField(allow_ipv4=True), HostnameField(allow_ipv4=False)
        want = False
        if lo is not None or hi is not None or p:
            skip("unused")

    def verdict(field):
        try:
            field.validate(cfg, v)
            return True
        except ValueError:
            return False
    if strict_first:
        first = verdict(strict)
        hold("second", first == want, "strict field misjudges on first use")
        hold("second", verdict(loose), "permissive field rejected a valid value")
        hold("second", verdict(strict) == want, "strict field changed its verdict after another field validated the value")
    else:
        hold("second", verdict(loose), "permissive field rejected a valid value")
        hold("second", verdict(strict) == want,
             lambda: "after a permissive field accepted %r, the strict field's verdict is wrong (expected accept=%r)" % (v, want))
        hold("second", verdict(strict) == want, "verdict not repeatable")
    return True


# --------------------------------------------------------------------------- derived string fields + length bounds
@obligation(prop="C05", sites=("idem",), regions=("canonical_form_longer_than_max_len",), budget={"quick": 120, "thorough": 300},
            encodes=["cincoconfig.fields.net_field.IPv4NetworkField._validate", "cincoconfig.fields.file_field.FilenameField._validate"],
            stubs=("FakeFS",), examples=({"which": 0, "hi": None}, {"which": 1, "hi": None}),
            what="string-derived fields that return a CANONICAL form (IPv4Network adds the prefix, Filename resolves "
                 "against the start directory) combined with max_len (symbolic): an accepted result validates again")
def canonical_form_vs_max_len(which: int, hi: Optional[int]) -> bool:
    """
    pre: 0 <= which <= 2
    pre: hi is None or 0 <= hi <= 20
    post: _
    """
    cfg = _cfg()
    fs = FakeFS(files={"/abs/f.txt": b"x"}, dirs=["/abs"])
    with fs.patched():
        if which == 0:
            field, value = IPv4NetworkField(max_len=hi), "10.0.0.0"
        elif which == 1:
            field, value = FilenameField(startdir="/abs", max_len=hi), "f.txt"
        else:
            field, value = IPv4AddressField(max_len=hi), "10.0.0.1"
        try:
            r = field.validate(cfg, value)
        except ValueError:
            skip("rejected by the length bound")
        known("canonical_form_longer_than_max_len", hi is not None and len(r) > hi)
        try:
            r2 = field.validate(cfg, r)
        except ValueError:
            return hold("idem", False, lambda: "accepted result %r is rejected when validated again (max_len=%r)" % (r, hi))
        return hold("idem", r2 == r, "not idempotent")


# --------------------------------------------------------------------------- digest values and the field's algorithm
HASHES = ("md5", "sha1", "sha224", "sha256", "sha384", "sha512")


@obligation(prop="C05", sites=("accept", "reject"), budget={"quick": 60, "thorough": 120},
            encodes=["cincoconfig.fields.secure_field.ChallengeField._validate",
                     "cincoconfig.fields.secure_field.ChallengeField.to_basic",
                     "cincoconfig.fields.secure_field.ChallengeField.to_python"],
            what="ChallengeField(algorithm a) given a DigestValue made with algorithm b, assigned or as the declared "
                 "default (all 36 pairs; text or byte-string secret): an ACCEPTED value survives to_python(to_basic(.)) as an equal value that "
                 "still verifies the secret and is accepted again (the on-disk form holds salt and digest only)")
def challenge_digest_algorithm(ai: int, bi: int, as_bytes: bool, as_default: bool = False) -> bool:
    """
    pre: 0 <= ai < 6 and 0 <= bi < 6
    post: _
    """
    import hashlib
    from cincoconfig.fields.secure_field import DigestValue
    from vf.hlib.stubs import untraced
    a = b = HASHES[0]
    for i in range(6):
        if ai == i:
            a = HASHES[i]
        if bi == i:
            b = HASHES[i]
    secret = b"s3cret" if as_bytes else "s3cret"
    with untraced():
        cfg = _cfg()
        value = DigestValue.create(secret, getattr(hashlib, b))
        if as_default:
            # the same value as the field's DECLARED DEFAULT: what a fresh configuration holds must survive too
            schema = Schema()
            schema.pw = ChallengeField(a, default=value)
            field = schema.pw
            try:
                cfg = schema()
            except (TypeError, ValueError):
                return hold("reject", a != b, "a default digest of the field's own algorithm was rejected")
            got = cfg.pw
        else:
            field = ChallengeField(a)
            try:
                got = field.validate(cfg, value)
            except ValueError:
                return hold("reject", a != b, "a digest value of the field's own algorithm was rejected")
        back = field.to_python(cfg, field.to_basic(cfg, got))
        ok = True
        try:
            back.challenge(secret)
        except ValueError:
            ok = False
        hold("accept", ok and back == got,
             lambda: "accepted %s digest in a %s field does not survive its on-disk form (verifies: %r)" % (b, a, ok))
        hold("accept", field.validate(cfg, back) == back, "reloaded value not accepted again")
    return True


# --------------------------------------------------------------------------- secrets of every length
@obligation(prop="C05", sites=("rt",), budget={"quick": 200, "thorough": 400}, stubs=("FakeFS",),
            encodes=["cincoconfig.fields.secure_field.SecureField.to_basic", "cincoconfig.fields.secure_field.SecureField.to_python"],
            what="SecureField (xor / aes / best), scalar and as list item / dict value: to_python(to_basic(v)) == v for "
                 "secrets of EVERY length 1..66 bytes (block-aligned lengths 16/32/48/64 and the key length included; "
                 "ASCII or ending in a two-byte character); the ciphers run concretely, one path per length")
def secret_codec_every_length(n: int, mi: int, wide: bool) -> bool:
    """
    pre: 1 <= n <= 66 and 0 <= mi <= 2
    post: _
    """
    from cincoconfig import DictField, ListField
    from vf.hlib.stubs import untraced
    method = ("xor", "aes", "best")[0]
    for i, m in enumerate(("xor", "aes", "best")):
        if mi == i:
            method = m
    if wide and n < 2:
        skip("a two-byte character needs two bytes")
    size = 1
    for k in range(1, 67):       # the solver decides n; everything below works on the concrete size
        if n == k:
            size = k
    n = size
    wide = True if wide else False
    text = ("x" * (n - 2) + "é") if wide else "x" * n
    with untraced():
        fs = FakeFS(files={"/k/c05.key": bytes(range(1, 33))}, dirs=["/k"])
        with fs.patched():
            schema = Schema()
            schema.s = SecureField(method=method)
            schema.ls = ListField(SecureField(method=method))
            schema.ds = DictField(StringField(), SecureField(method=method))
            cfg = schema(key_filename="/k/c05.key")
            ok = len(text.encode()) == n
            detail = None
            for key, value in (("s", text), ("ls", [text, "pw"]), ("ds", {"k": text})):
                field = schema[key]
                try:
                    accepted = field.validate(cfg, value)
                    back = field.to_python(cfg, field.to_basic(cfg, accepted))
                    good = back == accepted and field.validate(cfg, back) == accepted
                except Exception as exc:  # noqa: BLE001
                    good, back = False, exc
                if not good:
                    ok, detail = False, (key, back)
    return hold("rt", ok, lambda: "%s secret of %d bytes does not survive its on-disk form: %r" % (method, n, detail))
