"""C08 - ciphers invert exactly; AES framing (glue); bad input rejected.

Engine SMT (K-sym): XorProvider / AesProvider *source* re-executed over z3 bit-vector bytes.
Engine CH: method resolution, SecureField.to_python shapes.
"""
import base64
import pickle
from typing import Optional, Union

import cincoconfig.encryption as encmod
from cincoconfig import Schema, SecureField
from cincoconfig.encryption import AesProvider, EncryptionError, KeyFile, SecureValue, XorProvider

from vf.hlib import TIER, Violated, hold, obligation, skip
from vf.hlib.stubs import FakeFS

N_XOR = 80 if TIER == "quick" else 200
N_AES = 40 if TIER == "quick" else 70


def _pack(d):
    return base64.b64encode(pickle.dumps(d)).decode()


# =========================================================================== XOR (K-sym)
def replay_xor(key: bytes, text: bytes) -> bool:
    p = XorProvider(key)
    out = p.encrypt(text)
    want = bytes(t ^ key[i % len(key)] for i, t in enumerate(text))
    if out != want or len(out) != len(text):
        raise Violated("xor: out[i] != text[i] ^ key[i mod 32]")
    if p.decrypt(out) != text or XorProvider(key).decrypt(out) != text:
        raise Violated("xor: decrypt(encrypt(t)) != t")
    return True


_K = bytes((i * 37 + 11) % 256 for i in range(32))
_T = bytes((i * 91 + 5) % 256 for i in range(100))


@obligation(prop="C08", engine="smt", replay_fn=replay_xor,
            examples=tuple({"key": _K, "text": _T[:n]} for n in (0, 1, 31, 32, 33, 63, 64, 65, 97))
            + ({"key": _K, "text": _K[:5]}, {"key": _K, "text": _K[:1] + b"rest"}, {"key": _K, "text": _K + _K[:3]},
               {"key": _K, "text": b"\x00\x00abc"}, {"key": bytes(32), "text": b"\x00\x01"},
               {"key": _K, "text": bytes(40)}),
            encodes=["cincoconfig.encryption.XorProvider.encrypt", "cincoconfig.encryption.XorProvider.decrypt"],
            budget={"quick": 120, "thorough": 900},
            what="XOR: for every 32-byte key and every text of length 0..N: out[i]=t[i]^k[i%32], len kept, "
                 "decrypt(encrypt(t))=t also with a second provider object (QF_BV, unsat)")
def xor_ksym(tier: str, budget: float) -> dict:
    """
    pre: key length = 32; text length 0..80 (quick) / 0..200 (thorough); byte contents unconstrained
    """
    import z3
    from vf.smt import symbyte as sb
    from vf.smt.cross import cross_check

    cls, src = sb.reexec_class(encmod, XorProvider)
    tally = sb.Tally()
    key = sb.fresh("k", 32)
    thorough = tier == "thorough"
    # translator validation: the re-executed class on concrete repo-test inputs == real class
    for k0, t0 in ((b"x" * 32, b"hello world"), (bytes(range(32)), bytes(range(70)))):
        enc = cls(sb.SymSeq(k0)).encrypt(sb.SymSeq(t0))
        conc = bytes(z3.simplify(b).as_long() for b in enc)
        if conc != XorProvider(k0).encrypt(t0):
            return {"status": "error", "error": "K-sym re-execution disagrees with the real XorProvider on test input"}
    for n in range(0, N_XOR + 1):
        text = sb.fresh("t%d" % n, n)
        p1, p2 = cls(key), cls(key)
        out = p1.encrypt(text)
        back = p2.decrypt(out)
        back_same = p1.decrypt(out)
        if len(out) != n or len(back) != n:
            return _smt_cex(tally, {"key": bytes(32), "text": bytes(n)}, "length not preserved")
        good = z3.And(
            [out[i] == (text[i] ^ key[i % 32]) for i in range(n)]
            + [back[i] == text[i] for i in range(n)]
            + [back_same[i] == text[i] for i in range(n)]
        ) if n else z3.BoolVal(True)
        s = z3.SolverFor("QF_BV")
        s.add(z3.Not(good))
        r = tally.check(s, export=thorough and n % 20 == 0)
        if r == "sat":
            m = s.model()
            return _smt_cex(tally, {"key": sb.model_bytes(m, key), "text": sb.model_bytes(m, text)}, "n=%d" % n)
        if r != "unsat":
            return {"status": "unknown", "queries": tally.queries, "solver_s": tally.solver_s,
                    "error": "z3 answered %s at n=%d" % (r, n)}
    extra = {"text_lengths": [0, N_XOR], "key_len": 32, "unsat": tally.unsat}
    if thorough:
        n_x, bad = cross_check(tally.smt2, "unsat")
        extra["cvc5_cross_checked"] = n_x
        if bad:
            return {"status": "error", "error": "solver disagreement: %s" % bad}
    # premise satisfiable (vacuity twin): trivially, the inputs are unconstrained
    return {"status": "confirmed", "paths": tally.queries, "confirmed_paths": tally.unsat,
            "queries": tally.queries, "solver_s": round(tally.solver_s, 3), "smt": extra,
            "reached": {"end": tally.unsat}}


def _smt_cex(tally, args, note):
    return {"status": "refuted", "queries": tally.queries, "solver_s": round(tally.solver_s, 3),
            "args_b64": _pack(args), "args_repr": {k: repr(v) for k, v in args.items()},
            "messages": [{"state": "SMT_SAT", "message": note}]}


# =========================================================================== AES glue (K-sym + ideal cipher)
def replay_aes(key: bytes, text: bytes, ciphertext: Optional[bytes] = None, extend: int = 0, cut: int = 0) -> bool:
    p = AesProvider(key)
    if extend or cut:  # a valid ciphertext with stray bytes appended / cut inside its last block must be rejected
        good = p.encrypt(text)
        bad = good + bytes(extend) if extend else good[: len(good) - cut]
        try:
            out = p.decrypt(bad)
        except Exception:
            return True
        raise Violated("aes: ciphertext of length %d (not block aligned) decrypted to %r" % (len(bad), out))
    if ciphertext is not None:  # malformed ciphertext must be rejected
        try:
            p.decrypt(ciphertext)
        except Exception:
            return True
        raise Violated("aes: malformed ciphertext accepted")
    c1, c2 = p.encrypt(text), p.encrypt(text)
    if len(c1) != 16 + 16 * (len(text) // 16 + 1):
        raise Violated("aes: framing length")
    if c1 == c2 or c1[:16] == c2[:16]:
        raise Violated("aes: IV not fresh")
    if AesProvider(key).decrypt(c1) != text:
        raise Violated("aes: decrypt(encrypt(t)) != t")
    return True


@obligation(prop="C08", engine="smt", replay_fn=replay_aes,
            examples=tuple({"key": _K, "text": _T[:n]} for n in (0, 15, 16, 17, 40))
            + ({"key": _K, "text": _T[:20], "extend": 1}, {"key": _K, "text": _T[:20], "cut": 5},
               {"key": _K, "text": b"", "ciphertext": bytes(31)}),
            encodes=["cincoconfig.encryption.AesProvider.encrypt", "cincoconfig.encryption.AesProvider.decrypt"],
            stubs=("IdealCipher (z3 level)", "urandom (fresh bit-vector bytes)"),
            budget={"quick": 120, "thorough": 600},
            what="AES glue under an ideal block cipher: round trip for |t|<=N, IV = fresh urandom(16) prepended, "
                 "|body| = 16*(|t|//16+1), short/non-aligned ciphertexts rejected")
def aes_glue_ksym(tier: str, budget: float) -> dict:
    """
    pre: key length = 32; text length 0..40 (quick) / 0..70 (thorough); malformed ciphertext lengths 0..48
    """
    import z3
    from vf.smt import symbyte as sb

    tally = sb.Tally()
    world = _IdealWorld(sb, z3, tally)
    cls, src = sb.reexec_class(
        encmod, AesProvider, os=world.os, Cipher=world.Cipher, algorithms=world.algorithms,
        modes=world.modes, padding=world.padding, default_backend=lambda: None, AES_AVAILABLE=True,
    )
    key = sb.fresh("k", 32)
    for n in range(0, N_AES + 1):
        text = sb.fresh("t%d" % n, n)
        world.reset()
        p1, p2 = cls(key), cls(key)
        try:
            c1 = p1.encrypt(text)
            c2 = p1.encrypt(text)
        except Exception as exc:  # noqa: BLE001
            return _smt_cex(tally, {"key": bytes(32), "text": bytes(n)}, "encrypt raised %r" % exc)
        ok_struct = (
            len(world.urandom_calls) == 2
            and all(c[0] == 16 for c in world.urandom_calls)
            and len(c1) == 16 + 16 * (n // 16 + 1)
            and all(a is b for a, b in zip(c1[:16].items, world.urandom_calls[0][1].items))
            and all(a is b for a, b in zip(c2[:16].items, world.urandom_calls[1][1].items))
            and world.encrypt_log[0][1] is not world.encrypt_log[1][1]
        )
        if not ok_struct:
            return _smt_cex(tally, {"key": bytes(range(32)), "text": bytes(n)}, "framing n=%d" % n)
        # the IV handed to the cipher must be the urandom output that is prepended
        s = z3.SolverFor("QF_BV")
        s.add(z3.Not(world.encrypt_log[0][1].eq_term(c1[:16])))
        if tally.check(s) != "unsat":
            return _smt_cex(tally, {"key": bytes(range(32)), "text": bytes(n)}, "IV used != IV stored n=%d" % n)
        try:
            back = p2.decrypt(c1)
        except Exception as exc:  # noqa: BLE001
            return _smt_cex(tally, {"key": bytes(range(32)), "text": bytes(n)}, "decrypt raised %r n=%d" % (exc, n))
        s = z3.SolverFor("QF_BV")
        s.add(z3.Not(back.eq_term(text)))
        r = tally.check(s)
        if r == "sat":
            m = s.model()
            return _smt_cex(tally, {"key": sb.model_bytes(m, key), "text": sb.model_bytes(m, text)}, "round trip n=%d" % n)
        if r != "unsat":
            return {"status": "unknown", "error": "z3 %s" % r}
    # a VALID ciphertext with 1..15 stray bytes appended, or cut inside its last block, must be rejected
    rejected = 0
    for n, extend, cut in ((20, 1, 0), (20, 15, 0), (0, 7, 0), (33, 0, 5), (16, 0, 15), (40, 3, 0)):
        world.reset()
        text = sb.fresh("m%d" % n, n)
        good = cls(key).encrypt(text)
        bad = (good + sb.fresh("stray", extend)) if extend else good[: len(good) - cut]
        if len(bad) < 32:
            continue
        try:
            cls(key).decrypt(bad)
        except Exception:  # noqa: BLE001
            rejected += 1
            continue
        return _smt_cex(tally, {"key": bytes(range(32)), "text": bytes(range(n)), "extend": extend, "cut": cut},
                        "ciphertext of length %d (not block aligned) accepted" % len(bad))
    # every length < 32 is rejected whatever the content
    for clen in list(range(0, 32)):
        world.reset()
        try:
            cls(key).decrypt(sb.fresh("c%d" % clen, clen))
        except Exception:  # noqa: BLE001
            rejected += 1
            continue
        return _smt_cex(tally, {"key": bytes(range(32)), "text": b"", "ciphertext": bytes(clen)},
                        "malformed ciphertext of length %d accepted" % clen)
    return {"status": "confirmed", "paths": tally.queries + rejected, "confirmed_paths": tally.unsat + rejected,
            "queries": tally.queries, "solver_s": round(tally.solver_s, 3),
            "smt": {"text_lengths": [0, N_AES], "malformed_lengths_rejected": rejected, "unsat": tally.unsat},
            "reached": {"end": tally.unsat}}


class _IdealWorld:
    """Ideal block cipher at the z3 level: ciphertext = fresh terms recorded against (key, iv, padded);
    the decryptor returns the recorded plaintext iff z3 proves the presented (key, iv, body) equal to a
    recorded triple, otherwise unconstrained terms.  PKCS7(128) per RFC 5652."""

    def __init__(self, sb, z3, tally):
        self.sb, self.z3, self.tally = sb, z3, tally
        self.reset()
        world = self

        class _os:
            @staticmethod
            def urandom(n):
                out = sb.fresh("iv%d" % len(world.urandom_calls), n)
                world.urandom_calls.append((n, out))
                return out

            path = __import__("os").path

        class _AES:
            def __init__(self, key):
                self.key = key

        class _CBC:
            def __init__(self, iv):
                self.iv = iv

        class _Enc:
            """update() emits the blocks completed so far (like the real CBC context), finalize() insists on
            block alignment"""

            def __init__(self, key, iv):
                self.key, self.iv, self.buf, self.out = key, iv, sb.SymSeq(), sb.SymSeq()

            def update(self, data):
                self.buf = self.buf + data
                complete = len(self.buf) // 16 * 16
                fresh_out = sb.fresh("ct%d_%d" % (len(world.encrypt_log), len(self.out)), complete - len(self.out))
                self.out = self.out + fresh_out
                return fresh_out

            def finalize(self):
                if len(self.buf) % 16:
                    raise ValueError("The length of the provided data is not a multiple of the block length.")
                world.encrypt_log.append((self.key, self.iv, self.buf, self.out))
                return sb.SymSeq()

        class _Dec:
            def __init__(self, key, iv):
                self.key, self.iv, self.buf, self.emitted = key, iv, sb.SymSeq(), 0

            def update(self, data):
                self.buf = self.buf + data
                complete = len(self.buf) // 16 * 16
                if complete == self.emitted:
                    return sb.SymSeq()
                out = None
                for key, iv, pt, ct in world.encrypt_log:
                    if len(ct) < complete or len(iv) != len(self.iv) or len(key) != len(self.key):
                        continue
                    s = z3.SolverFor("QF_BV")
                    s.add(z3.Not(z3.And(key.eq_term(self.key), iv.eq_term(self.iv),
                                        ct[:complete].eq_term(self.buf[:complete]))))
                    if world.tally.check(s) == "unsat":  # CBC: the first blocks decrypt independently of what follows
                        out = pt[self.emitted:complete]
                        break
                if out is None:
                    out = sb.fresh("junk%d" % world.tally.queries, complete - self.emitted)
                self.emitted = complete
                return out

            def finalize(self):
                if len(self.buf) % 16:
                    raise ValueError("The length of the provided data is not a multiple of the block length.")
                return sb.SymSeq()

        class _Cipher:
            def __init__(self, algorithm, mode, backend=None):
                self.algorithm, self.mode = algorithm, mode

            def encryptor(self):
                return _Enc(self.algorithm.key, self.mode.iv)

            def decryptor(self):
                return _Dec(self.algorithm.key, self.mode.iv)

        class _Padder:
            def __init__(self, bits):
                self.block = bits // 8
                self.buf = sb.SymSeq()

            def update(self, data):
                self.buf = self.buf + data
                return sb.SymSeq()

            def finalize(self):
                pad = self.block - len(self.buf) % self.block
                return self.buf + sb.SymSeq(bytes([pad]) * pad)

        class _Unpadder(_Padder):
            def finalize(self):
                if not len(self.buf) or len(self.buf) % self.block:
                    raise ValueError("Invalid padding bytes.")
                last = z3.simplify(self.buf[-1])
                if not z3.is_bv_value(last):
                    # padding byte not determined: any outcome possible -> unconstrained result
                    return sb.fresh("unpad%d" % world.tally.queries, max(0, len(self.buf) - 1))
                pad = last.as_long()
                if not 1 <= pad <= self.block:
                    raise ValueError("Invalid padding bytes.")
                return self.buf[: len(self.buf) - pad]

        class _PKCS7:
            def __init__(self, bits):
                self.bits = bits

            def padder(self):
                return _Padder(self.bits)

            def unpadder(self):
                return _Unpadder(self.bits)

        class _NS:
            pass

        self.os = _os
        self.Cipher = _Cipher
        self.algorithms = _NS()
        self.algorithms.AES = _AES
        self.modes = _NS()
        self.modes.CBC = _CBC
        self.padding = _NS()
        self.padding.PKCS7 = _PKCS7

    def reset(self):
        self.urandom_calls = []
        self.encrypt_log = []

    @property
    def encrypt_log_ivs(self):
        return [e[1] for e in self.encrypt_log]


# encrypt_log entries are (key, iv, padded, ct); index 1 = iv (used above)

# =========================================================================== CH: method resolution
KEYPATH = "/k/app.key"
KEY = bytes(range(1, 33))


@obligation(prop="C08", sites=("provider", "reject"),
            encodes=["cincoconfig.encryption.KeyFile._get_provider", "cincoconfig.encryption.KeyFile.encrypt",
                     "cincoconfig.encryption.KeyFile.decrypt"],
            stubs=("FakeFS",), budget={"quick": 60, "thorough": 240},
            what="KeyFile.encrypt with a symbolic method string: provider iff method in {aes,xor,best}; the recorded "
                 "method is concrete (aes|xor); decrypt with the recorded method returns the text (XOR path)")
def method_resolution(method: str) -> bool:
    """
    pre: len(method) <= 5
    post: _
    """
    fs = FakeFS(files={KEYPATH: KEY}, dirs=["/k"])
    with fs.patched():
        kf = KeyFile(KEYPATH)
        with kf:
            try:
                sv = kf.encrypt(b"secret-\xff", method=method)
            except Exception as exc:  # noqa: BLE001
                return hold("reject", method not in ("aes", "xor", "best"), "known method rejected: %r" % (exc,))
            hold("provider", method in ("aes", "xor", "best"), "unknown method produced a value")
            hold("provider", sv.method in ("aes", "xor"), "recorded method is not concrete")
            hold("provider", sv.method == ("xor" if method == "xor" else "aes"), "wrong provider for method")
            back = kf.decrypt(sv)
            hold("provider", back == b"secret-\xff", "decrypt(encrypt(t)) != t through KeyFile")
        with KeyFile(KEYPATH) as kf2:  # new object / new session over the same file
            hold("provider", kf2.decrypt(sv) == b"secret-\xff", "new session cannot decrypt")
    return True


_XOR_CT = base64.b64encode(XorProvider(KEY).encrypt(b"pw")).decode()
METHODS = (None, "", "aes", "xor", "best", "AES", "rot13", 5, True)
CTS = (None, "", _XOR_CT, "QQ", _XOR_CT.rstrip("=")[:-1] if _XOR_CT.endswith("=") else _XOR_CT[:-1], "!!", "AAAAAAAAAAAAAAAAAAAAAAAAAAAAAAAAAAAAAAAAAAAAAAAAAAA=", 7, b"QUJD", ["x"])


def _secure_shapes(via: int, kind: int, mi: int, ci: int, has_m: bool, has_c: bool, s: str) -> bool:
    from cincoconfig import DictField, ListField, StringField
    if via and kind in (0, 1):
        skip("None / plain text: the direct route")
    fs = FakeFS(files={KEYPATH: KEY}, dirs=["/k"])
    with fs.patched():
        schema = Schema()
        schema.pw = SecureField(method="xor")
        schema.pws = ListField(SecureField(method="xor"), default=lambda: [])
        schema.pwd = DictField(StringField(), SecureField(method="xor"), default=lambda: {})
        cfg = schema(key_filename=KEYPATH)

        class _Route:
            """the stored value reaches the field directly, or as a tree leaf, list item or dict value"""

            @staticmethod
            def to_python(cfg_, value):
                if via == 0:
                    return schema.pw.to_python(cfg_, value)
                if via == 1:
                    cfg_.load_tree({"pw": value})
                    return cfg_.pw
                if via == 2:
                    cfg_.load_tree({"pws": [{"method": "xor", "ciphertext": _XOR_CT}, value]})
                    return cfg_.pws[1]
                cfg_.load_tree({"pwd": {"k": value}})
                return cfg_.pwd["k"]
        f = _Route
        if kind == 0:
            return hold("passthrough", f.to_python(cfg, None) is None)
        if kind == 1:
            return hold("passthrough", f.to_python(cfg, s) == s)
        if kind in (2, 3):
            bad = 12 if kind == 2 else ["x"]
            try:
                f.to_python(cfg, bad)
            except ValueError:
                return hold("reject", True)
            return hold("reject", False, "wrongly shaped stored secret accepted")
        value = {}
        m = None
        c = None
        for i in range(len(METHODS)):
            if mi == i:
                m = METHODS[i]
        for i in range(len(CTS)):
            if ci == i:
                c = CTS[i]
        if has_m:
            value["method"] = m
        if has_c:
            value["ciphertext"] = c
        wellformed = has_m and has_c and m in ("xor", "best", "aes") and c == _XOR_CT
        try:
            out = f.to_python(cfg, value)
        except ValueError:
            return hold("reject", not (wellformed and m == "xor"), "well-formed xor secret rejected")
        except Exception as exc:  # noqa: BLE001
            return hold("reject", False, "malformed stored secret raised %r instead of ValueError" % (exc,))
        hold("value", isinstance(out, str), "non-string value returned")
        strict_b64 = False
        if isinstance(c, str):
            try:
                base64.b64decode(c, validate=False)   # the standard library's own verdict on the stored text
                strict_b64 = len(c) % 4 == 0
            except Exception:  # noqa: BLE001
                strict_b64 = False
        hold("value", has_m and has_c and m in ("xor", "aes", "best") and strict_b64,
             "malformed stored secret returned a value: %r" % (value,))
        if m == "xor" and c == _XOR_CT:
            hold("value", out == "pw", "wrong plaintext")
    return True


def _mk_shapes(via: int):
    name = "secure_to_python_shapes" if via == 0 else "secure_to_python_shapes_via%d" % via

    @obligation(prop="C08", name=name, group="secure_to_python_shapes", sites=("value", "reject", "passthrough"),
                encodes=["cincoconfig.fields.secure_field.SecureField.to_python"],
                stubs=("FakeFS",), budget={"quick": 240, "thorough": 480},
                what="SecureField.to_python over stored-value shapes (None|str|int|list|dict with method/ciphertext "
                     "drawn from menus incl. wrong types, bad base64, truncated/non-aligned ciphertext), reached %s: "
                     "returns only for None, str, or a well-formed pair; raises otherwise; never another outcome"
                     % ("directly", "as a tree leaf", "as an item of List(Secure)", "as a value of Dict(Str, Secure)")[via])
    def ob(kind: int, mi: int, ci: int, has_m: bool, has_c: bool, s: str) -> bool:
        """
        pre: 0 <= kind <= 4 and 0 <= mi < 9 and 0 <= ci < 10 and len(s) <= 3
        post: _
        """
        return _secure_shapes(via, kind, mi, ci, has_m, has_c, s)


for _via in range(4):
    _mk_shapes(_via)


# =========================================================================== sessions (providers are per session)
@obligation(prop="C08", sites=("sessions",), budget={"quick": 120, "thorough": 240}, stubs=("FakeFS",),
            encodes=["cincoconfig.encryption.KeyFile._get_provider", "cincoconfig.encryption.KeyFile.encrypt",
                     "cincoconfig.encryption.KeyFile.decrypt"],
            what="round trip ACROSS provider objects and sessions: one KeyFile object serves two sessions while the "
                 "key changes in between (replaced, re-created, generate_key); for xor, aes and best what the second "
                 "session encrypts is decrypted by a new KeyFile object with the key in the file and vice versa; "
                 "xor == text XOR file bytes")
def sessions_across_key_change(mi: int, first_use: int, ti: int, change: int, nested: bool) -> bool:
    """
    pre: 0 <= mi <= 2 and 0 <= first_use <= 2 and 0 <= ti <= 3 and 0 <= change <= 2
    post: _
    """
    from vf.hlib.scenarios import TEXTS, sessions_across_key_change as scenario
    method = ("xor", "aes", "best")[0]
    for i, m in enumerate(("xor", "aes", "best")):
        if mi == i:
            method = m
    text = TEXTS[0]
    for i in range(len(TEXTS)):
        if ti == i:
            text = TEXTS[i]
    fu = ch = 0
    for i in range(3):          # (selectors are decided by the solver here; the scenario itself runs concretely)
        if first_use == i:
            fu = i
        if change == i:
            ch = i
    nst = True if nested else False
    return scenario("sessions", method, fu, text, ch, nst)
