"""C04 - each file format decodes what it encodes, types intact, and all formats agree.

Repo-owned logic is executed symbolically (XML element mapping, root tag check, YAML root_key wrap/unwrap,
registry); the byte-level codecs (json, PyYAML, bson, pickle, expat/minidom) are third-party code outside the
solver's reach and only take part in a concretised cross-check on solver-selected menu trees.
"""
import math
from typing import Optional
from unittest import mock
from xml.etree import ElementTree as ET

from cincoconfig.core import ConfigFormat
from cincoconfig.formats import xml as xmlmod
from cincoconfig.formats import yaml as yamlmod
from cincoconfig.formats.json import JsonConfigFormat
from cincoconfig.formats.xml import XmlConfigFormat
from cincoconfig.formats.yaml import YamlConfigFormat

from vf.hlib import hold, obligation, skip
from vf.hlib.stubs import _deep, untraced

FLOATS = (0.0, -0.0, 1.5, -2.25, 1e100, float("inf"), float("-inf"), float("nan"))


def same_typed(a, b) -> bool:
    """equal with types preserved at every node (NaN equals NaN)"""
    if type(a) is not type(b):
        return False
    if isinstance(a, float):
        return (a != a and b != b) or a == b
    if isinstance(a, dict):
        return list(a.keys()) == list(b.keys()) and all(same_typed(a[k], b[k]) for k in a)
    if isinstance(a, list):
        return len(a) == len(b) and all(same_typed(x, y) for x, y in zip(a, b))
    return a == b


def _leaf(sel: int, i: int, fi: int, s: str, b: bool):
    """0 None, 1 bool, 2 int, 3 float (menu), 4 str"""
    if sel == 0:
        return None
    if sel == 1:
        return b
    if sel == 2:
        return i
    if sel == 3:
        for n in range(len(FLOATS)):
            if fi == n:
                return FLOATS[n]
        skip("menu")
    if sel == 4:
        return s
    skip("sel")


def _node(shape: int, l1, l2):
    """0 leaf, 1 [], 2 {}, 3 [l1], 4 [l1, l2], 5 {'a': l1}, 6 {'a': l1, 'item': l2}, 7 [[l1], {}], 8 {'a': {'b': l1}, 'c': []}"""
    if shape == 0:
        return l1
    if shape == 1:
        return []
    if shape == 2:
        return {}
    if shape == 3:
        return [l1]
    if shape == 4:
        return [l1, l2]
    if shape == 5:
        return {"a": l1}
    if shape == 6:
        return {"a": l1, "item": l2}
    if shape == 7:
        return [[l1], {}]
    if shape == 8:
        return {"a": {"b": l1}, "c": []}
    skip("shape")


def _mk_xml(sel1: int):
    @obligation(prop="C04", name="xml_element_roundtrip_k%d" % sel1, group="xml_element_roundtrip", sites=("rt",),
                encodes=["cincoconfig.formats.xml.XmlConfigFormat._to_element",
                         "cincoconfig.formats.xml.XmlConfigFormat._from_element"],
                budget={"quick": 240, "thorough": 600},
                what="XmlConfigFormat._from_element(_to_element(key, value)) on real ET.Element objects: equal value "
                     "with the same type at every node (bool vs int vs str '1'/'true', '' vs None, [] vs {} vs None); "
                     "9 container shapes over two leaves (first leaf kind fixed per obligation: None/bool/int/float/"
                     "str), ints |v|<=20 (int(text) concretises), floats from a menu incl. inf/nan/-0.0, |str|<=2")
    def ob(shape: int, sel2: int, i: int, j: int, fi: int, s: str, t: str, b: bool) -> bool:
        """
        pre: 0 <= shape <= 8 and 0 <= sel2 <= 4 and -20 <= i <= 20 and -20 <= j <= 20 and 0 <= fi < 8
        pre: len(s) <= 2 and len(t) <= 2
        post: _
        """
        if shape not in (4, 6) and (sel2 or j or t):
            skip("second leaf unused")
        if shape in (1, 2) and (i or fi or s or b):
            skip("leaf unused")
        if sel1 != 2 and i:
            skip("int unused")
        if sel1 != 3 and fi:
            skip("float unused")
        if sel1 != 4 and s:
            skip("str unused")
        if sel1 != 1 and b:
            skip("bool unused")
        if sel2 != 2 and j:
            skip("int unused")
        if sel2 != 4 and t:
            skip("str unused")
        value = _node(shape, _leaf(sel1, i, fi, s, b), _leaf(sel2, j, 0, t, not b))
        fmt = XmlConfigFormat()
        ele = fmt._to_element("x", value)
        back = fmt._from_element(ele)
        hold("rt", same_typed(back, value), lambda: "XML element round trip: %r -> %r" % (value, back))
        return True


for _k in range(5):
    _mk_xml(_k)


class _XmlText:
    """ET.tostring / minidom pretty printer / ET.fromstring replaced by an identity on Element objects"""

    def __init__(self):
        self.docs = {}

    def tostring(self, ele, encoding=None):
        tok = b"XMLDOC%d" % len(self.docs)
        self.docs[tok] = ele
        return tok

    def parseString(self, tok):  # minidom.parseString
        outer = self

        class _Doc:
            def toprettyxml(self, indent=""):
                return tok.decode()
        return _Doc()

    def fromstring(self, text):
        return self.docs[text.encode()]


ROOT_TAGS = ("config", "cfg", "a", "Config")


@obligation(prop="C04", sites=("same", "wrong"), stubs=("XML text layer = identity on Element",),
            encodes=["cincoconfig.formats.xml.XmlConfigFormat.dumps", "cincoconfig.formats.xml.XmlConfigFormat.loads"],
            budget={"quick": 300, "thorough": 600},
            what="XML dumps/loads with the textual layer stubbed: a document dumped with root tag a loads with root "
                 "tag b iff a == b (else rejected), and returns the tree; the default tag and three others")
def xml_root_tag(ai: int, bi: int, v: int, s: str) -> bool:
    """
    pre: 0 <= ai < 4 and 0 <= bi < 4 and len(s) <= 2 and -20 <= v <= 20
    post: _
    """
    a = b = ROOT_TAGS[0]
    for n in range(4):
        if ai == n:
            a = ROOT_TAGS[n]
        if bi == n:
            b = ROOT_TAGS[n]
    txt = _XmlText()
    tree = {"n": v, "s": s, "sub": {"l": [v, s, None, True]}}
    fake_et = mock.Mock(wraps=ET)
    fake_et.Element = ET.Element
    fake_et.tostring = txt.tostring
    fake_et.fromstring = txt.fromstring
    fake_minidom = mock.Mock()
    fake_minidom.parseString = txt.parseString
    with mock.patch.object(xmlmod, "ET", fake_et), mock.patch.object(xmlmod, "minidom", fake_minidom):
        doc = (XmlConfigFormat() if ai == 0 else XmlConfigFormat(root_tag=a)).dumps(None, _deep(tree))
        try:
            back = (XmlConfigFormat() if bi == 0 else XmlConfigFormat(root_tag=b)).loads(None, doc)
        except ValueError:
            return hold("wrong", a != b, "document with the right root tag rejected")
        hold("same", a == b, "document with the wrong root tag accepted")
        hold("same", same_typed(back, tree), lambda: "XML dumps/loads: %r -> %r" % (tree, back))
    return True


class _YamlStub:
    """yaml.dump / yaml.load replaced by an inverse pair over opaque tokens"""

    Dumper = object()
    Loader = object()

    def __init__(self):
        self.docs = {}

    def dump(self, tree, Dumper=None):
        tok = "YAMLDOC%d" % len(self.docs)
        self.docs[tok] = _deep(tree)
        return tok

    def load(self, text, Loader=None):
        return _deep(self.docs[text])


RKEYS = (None, "", "CONFIG", "a")


@obligation(prop="C04", sites=("rt",), stubs=("yaml.dump/load = inverse pair",),
            encodes=["cincoconfig.formats.yaml.YamlConfigFormat.dumps", "cincoconfig.formats.yaml.YamlConfigFormat.loads"],
            budget={"quick": 120, "thorough": 300},
            what="YAML root_key wrap/unwrap: loads(dumps(t)) == t for every root_key option (absent, empty, two names) "
                 "and trees that may themselves contain the root key as a key")
def yaml_root_key(ri: int, has_a: bool, has_cfg: bool, nested_same: bool, v: int) -> bool:
    """
    pre: 0 <= ri < 4
    post: _
    """
    rk = RKEYS[0]
    for n in range(4):
        if ri == n:
            rk = RKEYS[n]
    tree = {"x": v}
    if has_a:
        tree["a"] = {"a": v} if nested_same else v
    if has_cfg:
        tree["CONFIG"] = {"CONFIG": [v]} if nested_same else "s"
    stub = _YamlStub()
    with mock.patch.object(yamlmod, "yaml", stub):
        fmt = YamlConfigFormat() if ri == 0 else YamlConfigFormat(root_key=rk)
        doc = fmt.dumps(None, _deep(tree))
        fmt2 = YamlConfigFormat() if ri == 0 else YamlConfigFormat(root_key=rk)
        back = fmt2.loads(None, doc)
        hold("rt", same_typed(back, tree), lambda: "YAML root_key=%r: %r -> %r" % (rk, tree, back))
    return True


NAMES = ("json", "yaml", "xml", "bson", "pickle", "toml", "", "JSON", "mine")


@obligation(prop="C04", sites=("known", "unknown"), budget={"quick": 60, "thorough": 120},
            examples=({"ni": 8, "pretty": True, "register_mine": True},),
            encodes=["cincoconfig.core.ConfigFormat.get", "cincoconfig.core.ConfigFormat.register"],
            what="registry: ConfigFormat.get(name, **options) returns an instance of the registered class with the "
                 "options forwarded; unknown names raise; a registered custom format is found under its name only")
def registry(ni: int, pretty: bool, register_mine: bool) -> bool:
    """
    pre: 0 <= ni < 9
    post: _
    """
    name = NAMES[0]
    for n in range(9):
        if ni == n:
            name = NAMES[n]

    class Mine(ConfigFormat):
        def __init__(self, **kw):
            self.kw = kw

    if register_mine:
        ConfigFormat.register("mine", Mine)
    try:
        try:
            fmt = ConfigFormat.get(name, pretty=pretty) if name in ("json", "mine") else ConfigFormat.get(name)
        except KeyError:
            return hold("unknown", name in ("toml", "", "JSON") or (name == "mine" and not register_mine),
                        lambda: "registered format %r not found" % name)
        want = {"json": "JsonConfigFormat", "yaml": "YamlConfigFormat", "xml": "XmlConfigFormat",
                "bson": "BsonConfigFormat", "pickle": "PickleConfigFormat", "mine": "Mine"}
        hold("known", name in want and type(fmt).__name__ == want[name], lambda: "get(%r) -> %r" % (name, fmt))
        if name == "json":
            hold("known", fmt.pretty is pretty, "option not forwarded")
        if name == "mine":
            hold("known", register_mine and fmt.kw == {"pretty": pretty}, "option not forwarded to a custom format")
    finally:
        ConfigFormat._ConfigFormat__registry.pop("mine", None)
    return True


# --------------------------------------------------------------------------- concretised cross-check
LEAVES = (None, True, False, 0, 1, -5, 2 ** 40, 1.5, -0.0, 1e100, float("inf"), float("nan"), "", "1", "true",
          "null", " x ", "a<b>&\"'", "ünï", "a\nb",
          # line structure: empty / blank interior lines, only line breaks, a trailing break, Unicode line separators
          "a\n\nb", "\n\n", "a\n   \nb", "tail\n", "x\u2028y", "x\u0085y")
REAL = ("json", "yaml", "bson", "xml", "pickle")


def _mk_real(fmt: str):
    @obligation(prop="C04", name="real_codec_" + fmt, group="real_codecs", sites=("rt",), budget={"quick": 480, "thorough": 900},
                encodes=["cincoconfig.core.ConfigFormat.get"],
                examples=({"li": 3, "lj": 12, "shape": 6, "opt": False},),
                what="concretised cross-check through the real %s codec: trees built from 26 menu leaves (None, "
                     "booleans, ints incl. 2**40, floats incl. -0.0/inf/nan, strings that look like other types, need "
                     "escaping, carry blanks, line breaks, blank interior lines or Unicode line separators, non-ASCII) in 9 container shapes, with and without "
                     "the format's option: decode(encode(t)) equals t with types preserved at every node" % fmt)
    def ob(li: int, lj: int, shape: int, opt: bool) -> bool:
        """
        pre: 0 <= li < 26 and 0 <= lj < 20 and 0 <= shape <= 8
        post: _
        """
        l1 = l2 = None
        for n in range(26):
            if li == n:
                l1 = LEAVES[n]
            if lj == n:
                l2 = LEAVES[n]
        if shape not in (4, 6) and lj:
            skip("second leaf unused")
        if shape in (1, 2) and li:
            skip("leaf unused")
        tree = {"k": _node(shape, l1, l2), "other": 1}
        kwargs = {}
        if opt:
            kwargs = {"json": {"pretty": False}, "yaml": {"root_key": "CONFIG"}, "xml": {"root_tag": "settings"}}.get(fmt)
            if not kwargs:
                skip("no option")
        with untraced():  # everything is concrete here; the codec is third-party code
            codec = ConfigFormat.get(fmt, **kwargs)
            data = codec.dumps(None, _deep(tree))
            back = ConfigFormat.get(fmt, **kwargs).loads(None, data)
        hold("rt", isinstance(data, bytes), "dumps did not return bytes")
        hold("rt", same_typed(back, tree), lambda: "%s: %r -> %r" % (fmt, tree, back))
        return True


for _f in REAL:
    _mk_real(_f)


@obligation(prop="C04", sites=("fresh",), budget={"quick": 60, "thorough": 120},
            encodes=["cincoconfig.core.ConfigFormat.get"],
            what="two successive ConfigFormat.get calls for one format with different option VALUES (xml root_tag, "
                 "yaml root_key, json pretty; order symbolic): each returned formatter carries the options of its own "
                 "call, so a document written with one root tag is rejected when read with another, also through "
                 "Config.dumps/loads")
def registry_options_not_sticky(which: int, swap: bool) -> bool:
    """
    pre: 0 <= which <= 2
    post: _
    """
    from cincoconfig import IntField, Schema
    a, b = ("alpha", "beta") if not swap else ("beta", "alpha")
    if which == 0:
        f1 = ConfigFormat.get("xml", root_tag=a)
        f2 = ConfigFormat.get("xml", root_tag=b)
        hold("fresh", f1.root_tag == a and f2.root_tag == b, "second request got the first request's root tag")
        schema = Schema()
        schema.x = IntField(default=1)
        cfg = schema()
        with untraced():
            doc = cfg.dumps(format="xml", root_tag=a)
            try:
                schema().loads(doc, format="xml", root_tag=b)
                rejected = False
            except ValueError:
                rejected = True
        hold("fresh", rejected, "document with root tag %s accepted when reading with root tag %s" % (a, b))
    elif which == 1:
        f1 = ConfigFormat.get("yaml", root_key=a)
        f2 = ConfigFormat.get("yaml", root_key=b)
        hold("fresh", f1.root_key == a and f2.root_key == b, "second request got the first request's root key")
    else:
        f1 = ConfigFormat.get("json", pretty=swap)
        f2 = ConfigFormat.get("json", pretty=not swap)
        hold("fresh", f1.pretty is swap and f2.pretty is (not swap), "second request got the first request's option")
    return True
