"""C15 - every rejection is a ValidationError that names the offending field's full path."""
from typing import Optional

from cincoconfig import DictField, IntField, ListField, Schema, StringField, make_type
from cincoconfig.core import ValidationError

from vf.hlib import hold, known, obligation, skip
from vf.hlib.stubs import MemStore, make_type_nt

ENC = ["cincoconfig.core.Config._set_value", "cincoconfig.core.Config.load_tree",
       "cincoconfig.core.ValidationError.ref_path", "cincoconfig.core.Config._ref_path"]

BAD = (-1, "x", [1], {"q": 1}, float("inf"), float("nan"), True, b"x")
ROUTES = ("attr", "dotted", "ctor", "load_tree", "loads")
DKEYS = ("k", "a.b")


def _hop_schema():
    hop = Schema()
    hop.ttl = IntField(min=0, default=0)
    return hop


def _item_schema(nm, with_dd=True):
    item = Schema()
    item.v = IntField(min=0, default=0, name=nm)
    item.inner.p = IntField(min=0, default=0)            # a sub-configuration BELOW a list item
    item.inner.hops = ListField(_hop_schema(), default=lambda: [])
    if with_dd:
        item.dd = DictField(StringField(), IntField(min=0), default=lambda: {})
    return item


def _build(friendly: bool, pos: str = "*"):
    """Only the part of the schema that position `pos` needs ('*' = everything): building fields is
    the dominant per-path cost under the symbolic executor."""
    nm = "Friendly" if friendly else None
    top = pos.split(".")[0]
    Item = None
    schema = Schema()
    schema.a = IntField(min=0, default=0, name=nm)
    if top in ("s", "*"):
        schema.s.b = IntField(min=0, default=0, name=nm)
        schema.s.t.c = IntField(min=0, default=0, name=nm)
    if pos in ("ct.v", "ct", "s.ct2.v", "titems", "titems.dd", "*"):
        Item = make_type_nt(_item_schema(nm), "Item")
    if pos in ("ct.v", "ct", "*"):
        schema.ct = Item
    if pos in ("s.ct2.v", "*"):
        schema.s.ct2 = Item
    if pos in ("items", "items.dd", "items_item", "items.inner", "items.hops", "*"):
        schema.items = ListField(_item_schema(nm), default=lambda: [])
    if pos in ("titems", "titems.dd", "*"):
        schema.titems = ListField(Item, default=lambda: [])
    if pos in ("pitems", "*"):
        schema.pitems = ListField(make_type_nt(_item_schema(nm, False), "Plain"), default=lambda: [])
    if pos in ("s.items2", "*"):
        schema.s.items2 = ListField(_item_schema(nm), default=lambda: [])
    if pos in ("lst", "*"):
        schema.lst = ListField(IntField(min=0), default=lambda: [], name=nm)
    if pos in ("d", "*"):
        schema.d = DictField(StringField(), IntField(min=0), default=lambda: {}, name=nm)
    if pos in ("s.d2", "*"):
        schema.s.d2 = DictField(StringField(), IntField(min=0), default=lambda: {}, name=nm)
    return schema, Item


def _pick(menu, idx):
    for i in range(len(menu)):
        if idx == i:
            return menu[i]
    skip("menu")


def _nest(path_keys, leaf):
    out = leaf
    for k in reversed(path_keys):
        out = {k: out}
    return out


def _run(pos: str, route_i: int, bad_i: int, n: int, i: int, ki: int, friendly: bool, dup: bool = False) -> bool:
    route = _pick(ROUTES, route_i)
    bad = _pick(BAD, bad_i)
    key = _pick(DKEYS, ki)
    schema, Item = _build(friendly, pos)
    mem = MemStore()
    # ---- oracle path and the tree that carries the offending value
    if pos == "a":
        want, keys, leaf = "a", ["a"], bad
    elif pos == "s.b":
        want, keys, leaf = "s.b", ["s", "b"], bad
    elif pos == "s.t.c":
        want, keys, leaf = "s.t.c", ["s", "t", "c"], bad
    elif pos == "ct.v":
        want, keys, leaf = "ct.v", ["ct", "v"], bad
    elif pos == "s.ct2.v":
        want, keys, leaf = "s.ct2.v", ["s", "ct2", "v"], bad
    elif pos in ("items", "titems", "pitems", "s.items2"):
        if not 0 <= i < n:
            skip("index")
        want = pos + "[" + str(i) + "].v"
        keys = pos.split(".")
        leaf = [{"v": 1 if dup else j + 1} for j in range(n)]
        leaf[i] = {"v": bad}
    elif pos in ("items.inner", "items.hops"):
        if not 0 <= i < n:
            skip("index")
        keys = ["items"]
        leaf = [{"v": j + 1} for j in range(n)]
        if pos == "items.inner":
            want = "items[" + str(i) + "].inner.p"
            leaf[i] = {"v": 1, "inner": {"p": bad}}
        else:
            want = "items[" + str(i) + "].inner.hops[1].ttl"
            leaf[i] = {"v": 1, "inner": {"hops": [{"ttl": 1}, {"ttl": bad}]}}
    elif pos in ("items.dd", "titems.dd"):
        if not 0 <= i < n:
            skip("index")
        base = pos.split(".")[0]
        want = base + "[" + str(i) + "].dd[" + key + "]"
        keys = [base]
        leaf = [{"v": 1 if dup else j + 1} for j in range(n)]
        leaf[i] = {"v": 1, "dd": {key: bad}}
    elif pos == "lst":
        if isinstance(bad, list):
            skip("a list is not a wrong item here")
        want, keys, leaf = "lst", ["lst"], [1, bad, 2]
    elif pos == "d":
        want, keys, leaf = "d[%s]" % key, ["d"], {key: bad}
    elif pos == "s.d2":
        want, keys, leaf = "s.d2[%s]" % key, ["s", "d2"], {key: bad}
    else:
        raise AssertionError(pos)
    is_list = pos.split(".")[0] in ("items", "titems", "pitems") or pos == "s.items2"
    tree = _nest(keys, leaf)

    exc = None
    with mem.registered():
        try:
            if route == "ctor":
                schema(**tree)
            else:
                cfg = schema()
                if route == "load_tree":
                    cfg.load_tree(tree)
                elif route == "loads":
                    cfg.loads(mem.put(tree), format="mem")
                elif route in ("attr", "dotted"):
                    # mutate in place: existing items / dict / leaf
                    if is_list:
                        good = [{"v": 1 if dup else j + 1} for j in range(n)]
                        lst_owner = cfg
                        for k in keys[:-1]:
                            lst_owner = getattr(lst_owner, k)
                        setattr(lst_owner, keys[-1], good)
                        if route == "dotted":
                            # no dotted syntax for list items: this route replaces / inserts BY POSITION
                            if pos not in ("items", "titems", "pitems", "s.items2"):
                                skip("positional replacement explored for the item positions")
                            stored = getattr(lst_owner, keys[-1])
                            if ki == 0:
                                stored[i] = {"v": bad}
                            else:
                                stored.insert(i, {"v": bad})
                        target = getattr(lst_owner, keys[-1])[i]
                        if pos == "items.inner":
                            target.inner.p = bad
                        elif pos == "items.hops":
                            target.inner.hops = [{"ttl": 1}, {"ttl": 2}]
                            target.inner.hops[1].ttl = bad
                        elif pos.endswith(".dd"):
                            target.dd[key] = bad
                        else:
                            target.v = bad
                    elif pos == "lst":
                        if route == "dotted":
                            cfg["lst"] = leaf
                        else:
                            cfg.lst = leaf
                    elif pos in ("d", "s.d2"):
                        if route == "dotted":
                            cfg[".".join(keys)] = {key: bad}
                        else:
                            owner = cfg
                            for k in keys[:-1]:
                                owner = getattr(owner, k)
                            getattr(owner, keys[-1])[key] = bad
                    else:
                        if route == "dotted":
                            cfg[".".join(keys)] = bad
                        else:
                            owner = cfg
                            for k in keys[:-1]:
                                owner = getattr(owner, k)
                            setattr(owner, keys[-1], bad)
        except Exception as e:  # noqa: BLE001
            exc = e
    hold("rejected", exc is not None, "offending value %r accepted at %s" % (bad, want))
    hold("type", isinstance(exc, ValidationError) and isinstance(exc, ValueError),
         "rejection surfaced as %s, not ValidationError (value %r at %s via %s)" % (type(exc).__name__, bad, want, route))
    hold("path", exc.ref_path == want,
         "ref_path %r != %r (value %r via %s)" % (exc.ref_path, want, bad, route))
    text = str(exc)
    hold("path", text.startswith(want), "str(error) %r does not start with the path %r" % (text, want))
    if friendly and pos in ("a", "s.b", "s.t.c", "ct.v", "s.ct2.v"):
        hold("path", text.startswith(want + " (Friendly)"), "friendly name missing in %r" % (text,))
    return True


POSITIONS = ("items.inner", "items.hops", "lst", "a", "s.b", "s.t.c", "ct.v", "s.ct2.v", "items", "titems", "pitems", "s.items2", "items.dd", "titems.dd", "d", "s.d2")


def _make(pos: str):
    is_list = pos.split(".")[0] in ("items", "titems", "pitems") or pos == "s.items2"
    is_dict = pos.endswith(".dd") or pos in ("d", "s.d2")

    @obligation(prop="C15", name="reject_path_" + pos.replace(".", "_"), group="reject_path",
                sites=("rejected", "type", "path"), encodes=ENC, stubs=("MemFormat",),
                budget={"quick": 500, "thorough": 900},
                what="offending values of 8 shapes at position %s via attribute/dotted/constructor/load_tree/loads: "
                     "ValidationError whose ref_path and text name the full path" % pos)
    def ob(route_i: int, bad_i: int, n: int, i: int, ki: int, friendly: bool, dup: bool) -> bool:
        """
        pre: 0 <= route_i < 5 and 0 <= bad_i < 8
        pre: 1 <= n <= 3 and 0 <= i <= 2 and 0 <= ki <= 1
        post: _
        """
        if not is_list and (n != 1 or i != 0):
            skip("n/i unused")
        if not is_dict and ki != 0 and not (is_list and route_i == 1):
            skip("key unused (list positions, positional route: 0 = replace, 1 = insert)")
        if (is_list or is_dict) and friendly:
            skip("friendly unused")
        if dup and not (is_list and n > 1):
            skip("dup unused")
        if is_list and bad_i >= 3:
            skip("list positions: 3 value shapes (position, not shape, is the subject)")
        return _run(pos, route_i, bad_i, n, i, ki, friendly, dup)


for _p in POSITIONS:
    _make(_p)


WRONG = (5, "x", [1], None, True, 1.5, (), (1, 2), {3}, "12", {"7": 1})
SHAPE_POS = ("s", "s.t", "ct", "items", "items_item", "d", "lst")


@obligation(prop="C15", sites=("rejected", "type", "path"), stubs=("MemFormat",),
            encodes=["cincoconfig.core.Config._set_value", "cincoconfig.core.Config.loads",
                     "cincoconfig.core.Config._process_includes"],
            budget={"quick": 120, "thorough": 300},
            examples=({"pos_i": 0, "route_i": 0, "bad_i": 0}, {"pos_i": 0, "route_i": 4, "bad_i": 5}),
            what="wrongly shaped values (int, str, list, None, bool, float, empty tuple, pair, set, digit string, map) given to a "
                 "sub-configuration, a config type, a list of configurations (whole value and single item), a typed list of "
                 "integers or a typed dict via "
                 "attribute/constructor/load_tree/loads: ValidationError naming that field, never another type")
def reject_wrong_shape(pos_i: int, route_i: int, bad_i: int) -> bool:
    """
    pre: 0 <= pos_i < 7 and 0 <= route_i < 5 and 0 <= bad_i < 11
    post: _
    """
    pos = _pick(SHAPE_POS, pos_i)
    route = _pick(ROUTES, route_i)
    bad = _pick(WRONG, bad_i)
    if route == "dotted":
        skip("same code path as attr for one-segment keys")
    schema, Item = _build(False, pos)
    mem = MemStore()
    if isinstance(bad, dict) and pos not in ("items", "lst"):
        skip("a map is the right shape here (unknown keys are the library's AttributeError, not a field rejection)")
    if pos == "items_item":
        if bad is None or isinstance(bad, (list, tuple, set)):
            skip("None / containers are not single wrong items of interest")
        want, keys, leaf = ("items", "items[1]"), ["items"], [{"v": 1}, bad]
    elif pos in ("items", "lst"):
        if isinstance(bad, (list, tuple)) or bad is None:
            skip("lists, tuples and None are acceptable list values")
        want, keys, leaf = (pos,), [pos], bad     # a string or a map must not be iterated into items
    elif pos == "d":
        if bad is None or bad == ():
            skip("None and an empty sequence of pairs are acceptable")
        want, keys, leaf = ("d",), ["d"], bad
    else:
        want, keys, leaf = (pos,), pos.split("."), bad
    tree = _nest(keys, leaf)
    exc = None
    with mem.registered():
        try:
            if route == "ctor":
                schema(**tree)
            else:
                cfg = schema()
                if route == "load_tree":
                    cfg.load_tree(tree)
                elif route == "loads":
                    cfg.loads(mem.put(tree), format="mem")
                else:
                    owner = cfg
                    for k in keys[:-1]:
                        owner = getattr(owner, k)
                    setattr(owner, keys[-1], leaf)
        except Exception as e:  # noqa: BLE001
            exc = e
    hold("rejected", exc is not None, "wrongly shaped value %r accepted for %s" % (bad, pos))
    hold("type", isinstance(exc, ValidationError),
         "rejection surfaced as %s (%s), not ValidationError (value %r for %s via %s)" % (
             type(exc).__name__, exc, bad, pos, route))
    hold("path", exc.ref_path in want, "ref_path %r not in %r (value %r via %s)" % (exc.ref_path, want, bad, route))
    return True


EDITS = ("none", "insert0", "pop0", "reverse", "append")


@obligation(prop="C15", sites=("path",), encodes=ENC, budget={"quick": 300, "thorough": 600},
            examples=({"build": 1, "edit": 1, "j": 2, "typed": False}, {"build": 0, "edit": 3, "j": 0, "typed": True}),
            what="index in the error path after the LIST WAS EDITED: a list of configurations is filled by "
                 "assignment or by load_tree (symbolic), then edited in place (insert at 0, pop(0), reverse, append; "
                 "symbolic), then item j of the edited list is given an invalid value: the path names items[j]")
def reject_path_after_list_edit(build: int, edit: int, j: int, typed: bool) -> bool:
    """
    pre: 0 <= build <= 1 and 0 <= edit <= 4 and 0 <= j <= 3
    post: _
    """
    item = Schema()
    item.v = IntField(min=0, default=0)
    item.tag = StringField(default="t")
    schema = Schema()
    schema.items = ListField(make_type_nt(item, "It") if typed else item, default=lambda: [])
    cfg = schema()
    start = [{"v": 10, "tag": "a"}, {"v": 11, "tag": "b"}, {"v": 12, "tag": "c"}]
    if build == 0:
        cfg.items = start
    else:
        cfg.load_tree({"items": start})
    op = EDITS[0]
    for n in range(len(EDITS)):
        if edit == n:
            op = EDITS[n]
    if op == "insert0":
        cfg.items.insert(0, {"v": 9, "tag": "z"})
    elif op == "pop0":
        cfg.items.pop(0)
    elif op == "reverse":
        cfg.items.reverse()
    elif op == "append":
        cfg.items.append({"v": 13, "tag": "d"})
    if j >= len(cfg.items):
        skip("index")
    try:
        cfg.items[j].v = -5
    except ValidationError as exc:
        want = "items[" + str(j) + "].v"
        return hold("path", exc.ref_path == want, lambda: "ref_path %r, offending item is items[%d]" % (exc.ref_path, j))
    return hold("path", False, "invalid value accepted")


@obligation(prop="C15", sites=("path",), encodes=ENC, budget={"quick": 200, "thorough": 400},
            what="a list of configuration-type items is loaded / assigned from maps where the failing item, up to "
                 "the rejected entry, EQUALS an earlier item (config types compare by value): the path names the "
                 "failing item's own index")
def reject_path_equal_items_on_load(route: int, i: int, n: int) -> bool:
    """
    pre: 0 <= route <= 2 and 1 <= i < n <= 3
    post: _
    """
    from vf.hlib.stubs import untraced
    ri = ii = ni = 0
    for c in range(4):       # the selectors are decided by the solver; everything after that is concrete and runs
        if route == c:       # untraced (the engine's model of list.index() with value-equal config types confirmed a
            ri = c           # case that fails in plain Python; the witness replay caught that)
        if i == c:
            ii = c
        if n == c:
            ni = c
    with untraced():
        return _equal_items(ri, ii, ni)


def _equal_items(route: int, i: int, n: int) -> bool:
    t = Schema()
    t.name = StringField(default="")
    t.v = IntField(min=0, default=0)
    schema = Schema()
    schema.tl = ListField(make_type_nt(t, "T"), default=lambda: [])
    maps = [{"name": "a"} for _ in range(n)]
    maps[i] = {"name": "a", "v": -5}
    want = "tl[" + str(i) + "].v"
    try:
        if route == 0:
            schema().load_tree({"tl": maps})
        elif route == 1:
            schema().tl = maps
        else:
            schema(tl=maps)
    except ValidationError as exc:
        return hold("path", exc.ref_path == want, lambda: "ref_path %r, expected %r" % (exc.ref_path, want))
    return hold("path", False, "invalid item accepted")


@obligation(prop="C15", sites=("path",), encodes=ENC, budget={"quick": 200, "thorough": 400},
            examples=({"route": 2, "i": 1, "n": 2, "typed": False, "by_validator": False, "nested": True},),
            what="a list of configurations is given configuration OBJECTS (schema items / config-type items) one "
                 "of which fails whole-configuration validation (required field never set, schema validator) by "
                 "attribute / dotted / constructor / append: ValidationError whose path names items[i] and the field")
def reject_path_config_objects(route: int, i: int, n: int, typed: bool, by_validator: bool, nested: bool) -> bool:
    """
    pre: 0 <= route <= 3 and 0 <= i < n <= 3
    post: _
    """
    item = Schema()
    item.name = StringField(default="n")
    item.tls.port = IntField(required=True)
    if by_validator:
        item.tls._validators.append(_reject_low_port)
    It = make_type_nt(item, "It") if typed else None
    schema = Schema()
    owner = schema.grp if nested else schema
    owner.items = ListField(It or item, default=lambda: [])
    objs = []
    for k in range(n):
        o = It() if typed else item()
        o.name = "n" + str(k)
        if k != i:
            o.tls.port = 8000 + k
        elif by_validator:
            o.tls.port = 1
        objs.append(o)
    prefix = "grp.items" if nested else "items"
    want = (prefix + "[" + str(i) + "].tls") if by_validator else (prefix + "[" + str(i) + "].tls.port")
    cfg = None
    try:
        if route == 2:
            schema(grp={"items": objs}) if nested else schema(items=objs)
        else:
            cfg = schema()
            node = cfg.grp if nested else cfg
            if route == 0:
                node.items = objs
            elif route == 1:
                cfg[prefix] = objs
            else:
                for o in objs:
                    node.items.append(o)
    except ValidationError as exc:
        return hold("path", exc.ref_path == want, lambda: "ref_path %r, expected %r" % (exc.ref_path, want))
    return hold("path", False, "invalid item accepted")


def _reject_low_port(cfg):
    if cfg.port is not None and cfg.port < 1024:
        raise ValueError("privileged port")


# --------------------------------------------------------------------------- include fields (document route)
INC_BAD = (5, [1], True, {"a": 1}, "missing.mem", "adir", 1.5, "")


@obligation(prop="C15", sites=("rejected", "type", "path"), stubs=("FakeFS", "MemFormat"),
            encodes=["cincoconfig.core.Config.loads", "cincoconfig.core.Config._process_includes",
                     "cincoconfig.fields.include_field.IncludeField.include"],
            budget={"quick": 120, "thorough": 300},
            examples=({"nested": False, "route": 1, "bad_i": 0}, {"nested": True, "route": 1, "bad_i": 4}),
            what="a rejected value for an INCLUDE field (wrong type, missing file, directory) at the root or in a "
                 "nested schema, by tree load, document load or assignment: ValidationError naming the field "
                 "(the document route resolves includes before load_tree and has its own rejection site)")
def reject_include_value(nested: bool, route: int, bad_i: int) -> bool:
    """
    pre: 0 <= route <= 2 and 0 <= bad_i < 8
    post: _
    """
    from cincoconfig import IncludeField
    from vf.hlib.stubs import FakeFS
    bad = _pick(INC_BAD, bad_i)
    schema = Schema()
    schema.inc = IncludeField(startdir="/cfg")
    schema.x = IntField(default=1)
    schema.s.inc2 = IncludeField(startdir="/cfg")
    schema.s.y = IntField(default=2)
    mem = MemStore()
    fs = FakeFS(files={"/cfg/ok.mem": mem.put({"x": 5})}, dirs=["/cfg", "/cfg/adir"])
    want = "s.inc2" if nested else "inc"
    tree = {"s": {"inc2": bad}} if nested else {"inc": bad}
    exc = None
    with fs.patched(), mem.registered():
        cfg = schema()
        try:
            if route == 0:
                cfg.load_tree(tree)
            elif route == 1:
                cfg.loads(mem.put(tree), format="mem")
            elif nested:
                cfg.s.inc2 = bad
            else:
                cfg.inc = bad
        except Exception as e:  # noqa: BLE001
            exc = e
    if bad == "":
        # an empty path names no file: every route treats it as "no include"; what must never happen is a
        # rejection of another type (open('') -> FileNotFoundError)
        return hold("type", exc is None or isinstance(exc, ValidationError),
                    lambda: "empty include value surfaced as %s (%s)" % (type(exc).__name__, exc))
    hold("rejected", exc is not None, "unusable include value %r accepted" % (bad,))
    hold("type", isinstance(exc, ValidationError),
         lambda: "rejection of include value %r surfaced as %s (%s), not ValidationError" % (bad, type(exc).__name__, exc))
    hold("path", exc.ref_path == want and str(exc).startswith(want),
         lambda: "ref_path %r / text %r do not name %r" % (exc.ref_path, str(exc), want))
    return True


# --------------------------------------------------------------------------- typed dicts as ITEMS of a typed list
@obligation(prop="C15", sites=("type", "path"), regions=("entry_of_dict_item",), stubs=("MemFormat",),
            encodes=["cincoconfig.fields.dict_field.DictProxy._validate", "cincoconfig.fields.list_field.ListProxy._validate"],
            budget={"quick": 120, "thorough": 300},
            examples=({"nested": False, "route": 0, "in_entry": False, "i": 1}, {"nested": True, "route": 3, "in_entry": False, "i": 0}),
            what="a typed list whose items are typed dicts (root or nested schema): a wrongly shaped item and an "
                 "offending entry inside an item, by assignment, tree load, document load, append or entry "
                 "assignment: ValidationError whose path names the list field")
def reject_path_dict_in_list(nested: bool, route: int, in_entry: bool, i: int) -> bool:
    """
    pre: 0 <= route <= 4 and 0 <= i <= 1
    post: _
    """
    schema = Schema()
    owner = schema.sub if nested else schema
    owner.ld = ListField(DictField(StringField(), IntField(min=0)), default=lambda: [])
    owner.pad = IntField(default=0)
    base = "sub.ld" if nested else "ld"
    known("entry_of_dict_item", in_entry)
    good = {"a": 1}
    bad_item = {"a": -1} if in_entry else 5
    items = [good, good]
    items[i] = bad_item
    mem = MemStore()
    exc = None
    with mem.registered():
        cfg = schema()
        target = cfg.sub if nested else cfg
        try:
            if route == 0:
                target.ld = items
            elif route == 1:
                cfg.load_tree({"sub": {"ld": items}} if nested else {"ld": items})
            elif route == 2:
                cfg.loads(mem.put({"sub": {"ld": items}} if nested else {"ld": items}), format="mem")
            elif route == 3:
                target.ld = [good]
                target.ld.append(bad_item)
            else:
                if not in_entry:
                    skip("entry assignment needs an entry")
                target.ld = [good, good]
                target.ld[i]["b"] = -1
        except Exception as e:  # noqa: BLE001
            exc = e
    hold("type", exc is not None and isinstance(exc, ValueError),
         lambda: "offending value accepted or wrong exception: %r" % (exc,))
    if isinstance(exc, ValidationError):
        hold("path", exc.ref_path.startswith(base) and str(exc).startswith(base),
             lambda: "error path %r does not name the list field %r" % (exc.ref_path, base))
    else:
        # a direct mutator on the list value raises the item field's bare ValueError (like built-in containers);
        # the path clause applies to rejections that come back as the library's validation error
        hold("path", route == 3 and not in_entry, lambda: "rejection surfaced as %r" % (exc,))
    return True


# --------------------------------------------------------------------------- typed dict entries that cannot be DECODED
@obligation(prop="C15", sites=("rejected", "type", "path"), stubs=("MemFormat",), budget={"quick": 60, "thorough": 120},
            encodes=["cincoconfig.fields.dict_field.DictField.to_python"],
            examples=({"nested": False, "route": 0, "ki": 0, "bad_i": 0},),
            what="a typed dict whose values have an on-disk encoding (bytes as base64): an entry that cannot be "
                 "decoded when a tree or document is loaded is a ValidationError naming the dict field AND the key")
def reject_path_dict_decode(nested: bool, route: int, ki: int, bad_i: int) -> bool:
    """
    pre: 0 <= route <= 1 and 0 <= ki <= 1 and 0 <= bad_i <= 2
    post: _
    """
    from cincoconfig import BytesField
    key = _pick(DKEYS, ki)
    bad = _pick(("abc", 5, ["x"]), bad_i)         # bad padding / not text at all
    schema = Schema()
    owner = schema.s if nested else schema
    owner.blobs = DictField(StringField(), BytesField(), default=lambda: {})
    owner.pad = IntField(default=0)
    want = ("s.blobs[%s]" if nested else "blobs[%s]") % key
    leaf = {"ok": "QUJD", key: bad}
    tree = {"s": {"blobs": leaf}} if nested else {"blobs": leaf}
    mem = MemStore()
    exc = None
    with mem.registered():
        cfg = schema()
        try:
            if route == 0:
                cfg.load_tree(tree)
            else:
                cfg.loads(mem.put(tree), format="mem")
        except Exception as e:  # noqa: BLE001
            exc = e
    hold("rejected", exc is not None, "undecodable entry accepted")
    hold("type", isinstance(exc, ValidationError), lambda: "surfaced as %s" % type(exc).__name__)
    hold("path", exc.ref_path == want and str(exc).startswith(want),
         lambda: "error path %r, expected %r" % (exc.ref_path, want))
    return True
