"""C20 - generated type stubs are valid Python that declares every field and method."""
import ast
import contextlib
import inspect
import io
import typing
from typing import Optional

from cincoconfig import (BoolField, BytesField, ChallengeField, DictField, FloatField, HostnameField, IntField,
                         ListField, Schema, SecureField, StringField, VirtualField, instance_method)
from cincoconfig.core import Config
from cincoconfig.stubs import generate_stub

from vf.hlib import hold, obligation, skip
from vf.hlib.stubs import make_type_nt

ENC = ["cincoconfig.stubs.generate_stub", "cincoconfig.stubs.get_annotation_typestr",
       "cincoconfig.stubs.get_method_annotation"]


# instance-method signature shapes (first parameter = the configuration)
def m0(cfg): ...
def m1(cfg, a): ...
def m2(cfg, a: int, b="x"): ...
def m3(cfg, *args): ...
def m4(cfg, a, *args, k): ...
def m5(cfg, *, k: int, j=2): ...
def m6(cfg, a, **kw): ...
def m7(cfg, a: int, *args, k: str = "s", **kw) -> int: ...
def m8(cfg) -> typing.List[int]: ...
def m9(cfg, a) -> "Config": ...
def m10(cfg, b: float = 1.0) -> None: ...
def m11(cfg, a, b, *, k, **rest) -> str: ...
# annotations that are typing constructs rather than classes
def t0(cfg, x: typing.Optional[int] = None): ...
def t1(cfg, x: typing.List[str], *, k: typing.Dict[str, int] = None) -> typing.Optional[str]: ...
def t2(cfg, cb: typing.Callable[[int], str] = None, *rest: int): ...
def t3(cfg, x: "typing.List[int]", y: typing.Union[int, str] = 1) -> "None": ...
# functions that take the configuration through *args (no explicit first parameter)
def v0(*args, **kw): ...
def v1(*a, k): ...


def _local_class_method():
    class LocalResult:        # a class defined inside a function body
        pass

    def uses_local(cfg, item: LocalResult) -> LocalResult: ...
    return uses_local, LocalResult


_USES_LOCAL, _LOCAL_CLS = _local_class_method()


def _local_number_type():
    class Celsius(float):
        pass
    return Celsius


def _same_name(kind: int):
    """different functions that share module and __qualname__ (re-used name in one scope)"""
    if kind == 0:
        def handler(cfg, a, b=1): ...
    elif kind == 1:
        def handler(cfg, *, key: str) -> int: ...
    else:
        def handler(cfg, *items, **options) -> "Config": ...
    return handler


METHODS = (m0, m1, m2, m3, m4, m5, m6, m7, m8, m9, m10, m11, _same_name(0), _same_name(1), _same_name(2),
           lambda cfg, x: x, lambda cfg, *, y=2: y, _USES_LOCAL, t0, t1, t2, t3, v0, v1)
NMETH = len(METHODS)


def _params(fn):
    """(name, kind) of the bound function's parameters, the configuration parameter replaced by self"""
    out = []
    params = list(inspect.signature(fn).parameters.values())
    if params and params[0].kind.name == "VAR_POSITIONAL":
        # the configuration arrives as args[0]: the bound function still takes *args
        return [("self", "POSITIONAL_OR_KEYWORD")] + [(p.name, p.kind.name) for p in params]
    for n, p in enumerate(params):
        out.append(("self" if n == 0 else p.name, p.kind.name))
    return out


def _stub_params(fdef: ast.FunctionDef):
    out = []
    a = fdef.args
    for x in a.posonlyargs:
        out.append((x.arg, "POSITIONAL_ONLY"))
    for x in a.args:
        out.append((x.arg, "POSITIONAL_OR_KEYWORD"))
    if a.vararg:
        out.append((a.vararg.arg, "VAR_POSITIONAL"))
    for x in a.kwonlyargs:
        out.append((x.arg, "KEYWORD_ONLY"))
    if a.kwarg:
        out.append((a.kwarg.arg, "VAR_KEYWORD"))
    return out


def _stub(f_scalars: bool, f_containers: bool, f_nested: bool, f_ct: bool, f_virtual: bool, f_secure: bool,
          mi: int, mj: int, target: int) -> bool:
    schema = Schema(dynamic=(target == 1))
    persistent, virtual, methods = [], [], {}
    schema.always = IntField(default=1)
    persistent.append("always")
    if f_scalars:
        from cincoconfig.fields.number_field import NumberField
        schema.loc = NumberField(_local_number_type())     # storage type = a class defined inside a function
        persistent.append("loc")
        schema.s = StringField()
        schema.f = FloatField()
        schema.b = BoolField()
        schema.h = HostnameField()
        schema.raw = BytesField()
        persistent += ["s", "f", "b", "h", "raw"]
    if f_containers:
        schema.li = ListField(IntField())
        schema.lany = ListField()
        schema.d = DictField(StringField(), IntField())
        schema.dany = DictField()
        persistent += ["li", "lany", "d", "dany"]
    if f_nested:
        schema.sub.x = IntField()
        persistent.append("sub")
    if f_ct:
        t = Schema()
        t.v = IntField()
        schema.ct = make_type_nt(t, "Inner")
        persistent.append("ct")
        if f_containers:
            schema.lct = ListField(schema.ct.config_type)
            persistent.append("lct")
    if f_virtual:
        schema.virt = VirtualField(lambda cfg: 1)
        # ... and one that can be assigned to (its setter writes another field): still not a persistent field
        schema.virt_rw = VirtualField(lambda cfg: cfg.always, lambda cfg, value: cfg.__setattr__("always", value))
        virtual += ["virt", "virt_rw"]
    if f_secure:
        schema.pw = SecureField()
        schema.ch = ChallengeField("md5")
        persistent += ["pw", "ch"]
    for n, idx in enumerate((mi, mj)):
        for i in range(len(METHODS)):
            if idx == i:
                name = "meth%d" % n
                instance_method(schema, name)(METHODS[i])
                methods[name] = METHODS[i]
    def _deep_fields():
        # the field set at EVERY depth (nested schemas, schemas wrapped by config types and used as list items)
        from cincoconfig import get_all_fields
        from cincoconfig.core import ConfigTypeField
        from vf.hlib.stubs import untraced
        with untraced():        # plain bookkeeping over concrete objects
            out = [p for p, _, _ in get_all_fields(schema)]
            for key, fld in list(schema._fields.items()):
                if isinstance(fld, ConfigTypeField):    # (never probe attributes of a Schema: that creates fields)
                    out += [key + ":" + p for p, _, _ in get_all_fields(fld.config_type.__schema__)]
        # (dunder names: the symbolic executor's tracer probes __name__ / __self__ on callables, and a Schema
        #  answers every unknown attribute by creating a sub-schema - an artefact of tracing, not of the library)
        return [p for p in out if "__" not in p]
    fields_before = _deep_fields()
    if f_nested and target == 0 and not methods and not f_ct:
        # the stub of a NESTED schema (a field of another schema) describes that schema, not its owner
        text = generate_stub(schema.sub, class_name="Nested")
        sub_cls = [n for n in ast.parse(text).body if isinstance(n, ast.ClassDef)][0]
        sub_attrs = [n.target.id for n in sub_cls.body if isinstance(n, ast.AnnAssign)]
        hold("stub", sub_attrs == ["x"], lambda: "stub of the nested schema declares %r" % (sub_attrs,))
    if target == 0:
        obj, kw = schema, {"class_name": "Stub"}
    elif target == 1:
        obj, kw = schema(), {"class_name": "Stub"}
        obj.runtime_extra = 5      # a key the dynamic configuration picked up at run time
    else:
        obj, kw = make_type_nt(schema, "Stub"), {}
    cfg_before = None
    if target == 1:
        cfg_before = dict(obj.to_tree()) if not f_secure else None
    out = io.StringIO()
    with contextlib.redirect_stdout(out):
        text = generate_stub(obj, **kw)
    hold("stub", out.getvalue() == "", lambda: "generate_stub wrote to standard output: %r" % out.getvalue())
    with contextlib.redirect_stdout(io.StringIO()):
        again = generate_stub(obj, **kw)
        third = generate_stub(schema, class_name="Stub")
    hold("stub", again == text, "a second generation gives a different stub (the first one had a side effect)")
    if target == 0:
        hold("stub", third == text, "third generation differs")
    hold("stub", _deep_fields() == fields_before,
         lambda: "generate_stub changed the schema's field set: %r -> %r" % (fields_before, _deep_fields()))
    hold("stub", "runtime_extra" not in schema() , "a configuration built afterwards carries the other's dynamic key")
    if cfg_before is not None:
        hold("stub", dict(obj.to_tree()) == cfg_before, "generate_stub changed the configuration")
    try:
        mod = ast.parse(text)
    except SyntaxError as exc:
        hold("stub", False, lambda: "stub is not valid Python (%s):\n%s" % (exc, text))
    classes = [n for n in mod.body if isinstance(n, ast.ClassDef)]
    hold("stub", len(classes) == 1 and len(mod.body) == 1 and classes[0].name == "Stub", "not exactly one class")
    body = classes[0].body
    annotated = [n.target.id for n in body if isinstance(n, ast.AnnAssign) and isinstance(n.target, ast.Name)]
    hold("stub", sorted(annotated) == sorted(persistent + virtual),
         lambda: "annotated attributes %r, fields %r" % (sorted(annotated), sorted(persistent + virtual)))
    funcs = {n.name: n for n in body if isinstance(n, ast.FunctionDef)}
    hold("stub", "__init__" in funcs, "no constructor")
    init_params = [a.arg for a in funcs["__init__"].args.args]
    hold("stub", init_params == ["self"] + persistent,
         lambda: "constructor parameters %r, persistent fields %r" % (init_params, persistent))
    hold("stub", sorted(k for k in funcs if k != "__init__") == sorted(methods),
         lambda: "methods %r, instance methods %r" % (sorted(funcs), sorted(methods)))
    for name, fn in methods.items():
        hold("stub", _stub_params(funcs[name]) == _params(fn),
             lambda: "method %s declared as %r, bound function has %r" % (name, _stub_params(funcs[name]), _params(fn)))
    return True


WHAT = ("symbolic schema shape (presence of scalar / container / nested schema / config type / virtual / "
        "secure+challenge fields, up to two instance methods drawn from 24 functions (12 signature shapes, four with typing-construct annotations, two taking the configuration through *args, three functions sharing one qualified name, two lambdas, one annotated with a function-local class), target = Schema | Config "
        "| ConfigType): the stub parses, declares one class with an annotated attribute per field, __init__ takes "
        "exactly the persistent fields, one method per instance method with the same parameter names and kinds; "
        "nothing on stdout; schema and configuration unchanged")


def _mk_fields(target: int):
    @obligation(prop="C20", name="stub_fields_t%d" % target, group="stub_fields", sites=("stub",), encodes=ENC,
                budget={"quick": 240, "thorough": 600},
                examples=({"f_scalars": True, "f_containers": True, "f_nested": True, "f_ct": True,
                           "f_virtual": True, "f_secure": True, "with_method": True},),
                what=WHAT + " [all 64 field-kind combinations, with/without one method, target %d]" % target)
    def ob(f_scalars: bool, f_containers: bool, f_nested: bool, f_ct: bool, f_virtual: bool, f_secure: bool,
           with_method: bool) -> bool:
        """
        post: _
        """
        return _stub(f_scalars, f_containers, f_nested, f_ct, f_virtual, f_secure, 7 if with_method else -1, -1, target)


def _mk_methods(mi: int):
    @obligation(prop="C20", name="stub_methods_m%d" % mi, group="stub_methods", sites=("stub",), encodes=ENC,
                budget={"quick": 240, "thorough": 600},
                what=WHAT + " [first method shape %d, second method any of 24 or none, all three targets]" % mi)
    def ob(mj: int, target: int, f_virtual: bool) -> bool:
        """
        pre: -1 <= mj < 24 and 0 <= target <= 2
        post: _
        """
        return _stub(False, False, False, False, f_virtual, False, mi, mj, target)


for _t in range(3):
    _mk_fields(_t)
for _m in range(NMETH):
    _mk_methods(_m)
