"""C14 - environment variables beat files, assignment beats both, names are predictable."""
from typing import Optional

from cincoconfig import (BoolField, BytesField, ChallengeField, DictField, IntField, ListField, Schema, SecureField,
                         StringField)
from cincoconfig.core import ValidationError

from vf.hlib import hold, known, obligation, skip
from vf.hlib.stubs import fake_environ

ENVS = (None, True, "APP", False)
FENVS = (None, True, "NAME", False)


def _sel(menu, i):
    for n in range(len(menu)):
        if i == n:
            return menu[n]
    skip("menu")


def oracle_prefix(parent_prefix, env, key):
    """environment prefix of a schema: '' = automatic without prefix, str = prefix, None = unbound, False = disabled"""
    if env is False:
        return False
    if env is True:
        return ""
    if isinstance(env, str):
        return env
    if isinstance(parent_prefix, str):
        return (parent_prefix + "_" if parent_prefix else "") + key.upper()
    return None


def oracle_name(prefix, fenv, key):
    """documented naming rule: explicit name; disabled; automatic = upper-cased path below the prefix"""
    if fenv is False:
        return False
    if isinstance(fenv, str):
        return fenv
    if fenv is True or isinstance(prefix, str):
        return ((prefix + "_") if isinstance(prefix, str) and prefix else "") + key.upper()
    return None


@obligation(prop="C14", sites=("name",), budget={"quick": 120, "thorough": 300},
            encodes=["cincoconfig.core.Field.__setkey__", "cincoconfig.core.Schema.__setkey__"],
            what="resolved variable name of a field at depth 1..3 for every combination of root-schema env "
                 "(absent/automatic/named/disabled), nested-schema env (absent/named/disabled) and field env "
                 "(absent/automatic/named/disabled), schemas built top-down (explicit nested schemas, implicit ones via attribute access, implicit ones via a dotted item path) == the documented naming rule")
def env_naming(re_i: int, s1_i: int, s2_i: int, fe_i: int, depth: int, route: int) -> bool:
    """
    pre: 0 <= re_i <= 3 and 0 <= s1_i <= 3 and 0 <= s2_i <= 3 and 0 <= fe_i <= 3 and 1 <= depth <= 3
    pre: 0 <= route <= 2
    post: _
    """
    renv, s1, s2, fenv = _sel(ENVS, re_i), _sel(ENVS, s1_i), _sel(ENVS, s2_i), _sel(FENVS, fe_i)
    if s1 is True or s2 is True:
        skip("automatic setting on a NESTED schema: the statement does not say whether it restarts the prefix")
    if depth < 2 and s1_i:
        skip("unused")
    if depth < 3 and s2_i:
        skip("unused")
    if isinstance(s1, str):
        s1 = "ONE"
    if isinstance(s2, str):
        s2 = "TWO"
    root = Schema(env=renv)
    prefix = oracle_prefix(None, renv, "")
    owner = root
    if route == 0:
        # explicit nested schemas, attribute route
        if depth >= 2:
            owner.db = Schema(env=s1)
            owner = owner.db
            prefix = oracle_prefix(prefix, s1, "db")
        if depth >= 3:
            owner.pool_x = Schema(env=s2)
            owner = owner.pool_x
            prefix = oracle_prefix(prefix, s2, "pool_x")
        owner.max_size = IntField(env=fenv, default=1)
    else:
        # intermediate schemas created implicitly (no env setting of their own): by attribute access (1) or by a
        # dotted path through item assignment (2)
        if s1 is not None or s2 is not None:
            skip("implicit intermediate schemas have no setting of their own")
        keys = ["db", "pool_x"][: depth - 1]
        for k in keys:
            prefix = oracle_prefix(prefix, None, k)
        if route == 1:
            for k in keys:
                owner = getattr(owner, k)
            owner.max_size = IntField(env=fenv, default=1)
        else:
            root[".".join(keys + ["max_size"])] = IntField(env=fenv, default=1)
            for k in keys:
                owner = owner[k]
    want = oracle_name(prefix, fenv, "max_size")
    got = owner.max_size.env
    hold("name", got == want and type(got) is type(want),
         lambda: "variable name %r, documented rule gives %r (root %r, nested %r/%r, field %r, depth %d)" % (
             got, want, renv, s1, s2, fenv, depth))
    return True


# ----------------------------------------------------------------------------- precedence
def _prec_schema(nested: bool, fenv):
    schema = Schema(env="APP")
    owner = schema.sub if nested else schema
    owner.x = StringField(max_len=3, default="def", env=fenv)
    owner.other = IntField(default=1, env=False)
    return schema


@obligation(prop="C14", sites=("bound", "invalid", "unbound"), stubs=("FakeEnviron",),
            encodes=["cincoconfig.core.Field.__setdefault__", "cincoconfig.core.Config.load_tree"],
            budget={"quick": 200, "thorough": 500},
            what="StringField(max_len=3) bound explicitly / automatically / opted out, at the root or nested; the "
                 "variable is unset or a symbolic string (|s|<=4): non-empty valid => value is the variable, later "
                 "load_tree and loads-like trees do not override, assignment and constructor keyword do; invalid "
                 "=> construction raises ValidationError naming the field; unset/empty/opted-out => as unbound")
def env_precedence_string(nested: bool, fe_i: int, is_set: bool, val: str, doc: str) -> bool:
    """
    pre: 0 <= fe_i <= 3 and len(val) <= 4 and len(doc) <= 2
    post: _
    """
    fenv = _sel(FENVS, fe_i)
    name = oracle_name("APP_SUB" if nested else "APP", fenv, "x")
    if not is_set and val != "":
        skip("val unused")
    environ = {}
    bound = isinstance(name, str)
    if is_set:
        environ[name if bound else "APP_X"] = val
    path = "sub.x" if nested else "x"
    with fake_environ(environ):
        schema = _prec_schema(nested, fenv)
        effective = bound and is_set and val != ""
        try:
            cfg = schema()
        except ValidationError as exc:
            hold("invalid", effective and len(val) > 3, "construction failed although the variable is valid/unbound")
            hold("invalid", exc.ref_path == path, lambda: "error names %r, not %r" % (exc.ref_path, path))
            return True
        owner = cfg.sub if nested else cfg
        if effective:
            hold("bound", len(val) <= 3, "invalid variable accepted")
            hold("bound", owner.x == val, "value is not the variable")
            cfg.load_tree({"sub": {"x": doc}} if nested else {"x": doc})
            owner = cfg.sub if nested else cfg
            hold("bound", owner.x == val, "a loaded document overrode the environment variable")
            owner.x = "set"
            hold("bound", owner.x == "set", "explicit assignment did not override the variable")
            # ... and it keeps beating both: a document loaded AFTER the assignment neither overrides it (the
            # variable is still set) nor brings the variable's value back
            cfg.load_tree({"sub": {"x": doc}} if nested else {"x": doc})
            owner = cfg.sub if nested else cfg
            hold("bound", owner.x == "set" or nested,
                 lambda: "a load after the explicit assignment changed the value to %r" % (owner.x,))
            if not nested:
                # (a keyword holding a MAP for a sub-configuration is applied with load semantics; whether that
                #  counts as "explicit assignment" is not fixed by the statement -> not asserted)
                cfg2 = schema(x="kw")
                hold("bound", cfg2.x == "kw", "constructor keyword did not override")
        else:
            hold("unbound", owner.x == "def", "default not used although the variable is unset/empty/opted out")
            cfg.load_tree({"sub": {"x": doc}} if nested else {"x": doc})
            owner = cfg.sub if nested else cfg
            hold("unbound", owner.x == doc, "document value not applied although no variable is in effect")
        hold("bound" if effective else "unbound", owner.other == 1, "bystander changed")
    return True


KINDS = ("int", "bool", "list", "dict", "challenge", "challenge_default", "secure", "list_nodefault", "bytes_hex",
         "bytes_b64")
# (the last two look like the hex / base64 on-disk form of a bytes field: a variable is a VALUE, not a document leaf)
VALUES = ("5", "x", "yes", "1,2", "0", "false", "0.0", "deadbeef", "aGVsbG8=", "")


def _kind_field(kind: str):
    if kind == "int":
        return IntField(min=0, default=1)
    if kind == "bool":
        return BoolField(default=True)
    if kind == "list":
        return ListField(IntField(), default=[9])
    if kind == "list_nodefault":
        return ListField(IntField())
    if kind == "dict":
        return DictField(StringField(), IntField(), default={"k": 9})
    if kind == "challenge":
        return ChallengeField("md5")
    if kind == "challenge_default":
        return ChallengeField("md5", default="dflt")
    if kind == "secure":
        return SecureField(default="dflt")
    if kind == "bytes_hex":
        return BytesField(encoding="hex", default=b"dflt")
    if kind == "bytes_b64":
        return BytesField(encoding="base64", default=b"dflt")
    raise AssertionError(kind)


def _validated(kind: str, text: str):
    """oracle: ('ok', value) or ('invalid',) for the variable's text under the field's documented validation"""
    if kind == "int":
        return ("ok", 5) if text == "5" else (("ok", 0) if text == "0" else ("invalid",))
    if kind == "bool":
        if text in ("yes",):
            return ("ok", True)
        if text in ("0", "false"):
            return ("ok", False)
        return ("invalid",)
    if kind in ("list", "list_nodefault", "dict"):
        return ("invalid",)  # a string is neither a list nor a dict
    if kind in ("challenge", "challenge_default"):
        return ("ok", "challenge:" + text)
    if kind == "secure":
        return ("ok", text)
    if kind in ("bytes_hex", "bytes_b64"):
        return ("ok", text.encode())     # validation of a text for a bytes field: its UTF-8 bytes, no decoding
    raise AssertionError(kind)


DOCS = {"int": 7, "bool": True, "list": [3], "list_nodefault": [3], "dict": {"d": 3}, "challenge": "docpw",
        "challenge_default": "docpw", "secure": "docpw", "bytes_hex": "00ff", "bytes_b64": "AP8="}


@obligation(prop="C14", sites=("bound", "invalid"), stubs=("FakeEnviron",), regions=("container_or_hashed_default",),
            encodes=["cincoconfig.core.Field.__setdefault__", "cincoconfig.core.Config.load_tree"],
            budget={"quick": 120, "thorough": 300},
            examples=({"kind_i": 0, "val_i": 0},),
            what="other field kinds (int, bool, typed list/dict, challenge with/without default, secure, bytes hex/base64) bound to a "
                 "non-empty variable drawn from a menu: value == validated variable and a later load does not "
                 "override it, or construction fails with ValidationError naming the field")
def env_precedence_kinds(kind_i: int, val_i: int) -> bool:
    """
    pre: 0 <= kind_i < 10 and 0 <= val_i < 9
    post: _
    """
    kind, text = _sel(KINDS, kind_i), _sel(VALUES, val_i)
    known("container_or_hashed_default", kind in ("list", "list_nodefault", "dict", "challenge_default"))
    with fake_environ({"APP_X": text}):
        schema = Schema(env="APP")
        schema.x = _kind_field(kind)
        want = _validated(kind, text)
        try:
            cfg = schema()
        except ValidationError as exc:
            hold("invalid", want[0] == "invalid", lambda: "valid variable %r rejected for %s" % (text, kind))
            hold("invalid", exc.ref_path == "x", "error does not name the field")
            return True
        hold("bound", want[0] == "ok",
             lambda: "variable %r is not a valid %s value but construction succeeded with x=%r" % (text, kind, cfg.x))

        def check(label):
            if kind.startswith("challenge"):
                try:
                    cfg.x.challenge(text)
                    good = True
                except (ValueError, AttributeError):
                    good = False
                hold("bound", good, lambda: "%s: challenge field does not verify the variable's text" % label)
            else:
                hold("bound", cfg.x == want[1] and type(cfg.x) is type(want[1]),
                     lambda: "%s: x=%r, validated variable is %r" % (label, cfg.x, want[1]))
        check("after construction")
        cfg.load_tree({"x": DOCS[kind]})
        check("after a later load")
    return True
