"""C13 - configurations of one schema share no state and never alter the schema."""
import copy
from typing import Optional

from cincoconfig import AnyField, DictField, IntField, ListField, Schema, StringField, get_all_fields, reset_value
from cincoconfig.core import Config, Field

from vf.hlib import hold, obligation, skip
from vf.hlib.stubs import make_type_nt, plain

ENC = ["cincoconfig.fields.list_field.ListField.__setdefault__", "cincoconfig.fields.dict_field.DictField.__setdefault__",
       "cincoconfig.core.Schema.__setdefault__", "cincoconfig.core.ConfigTypeField.__setdefault__"]


def _schema():
    item = Schema()
    item.v = IntField(default=0)
    item.tags = ListField(IntField(), default=[7])
    t = Schema()
    t.v = IntField(default=8)
    t.names = ListField(StringField(), default=["n"])
    schema = Schema(dynamic=True)
    schema.lst = ListField(IntField(), default=[1, 2])
    schema.raw = ListField(default=[1, 2])
    schema.anyl = ListField(AnyField(), default=[1, 2])
    schema.dct = DictField(StringField(), IntField(), default={"k": 1})
    schema.rawd = DictField(default={"k": 1})
    schema.ld = ListField(DictField(StringField(), IntField()), default=[{"k": 1}])
    schema.sub.b = IntField(default=6)
    schema.sub.l2 = ListField(IntField(), default=[3])
    schema.ct = make_type_nt(t, "T")
    schema.items1 = ListField(item, default=[{"v": 1}])
    schema.items2 = ListField(item, default=[{"v": 2}])
    ditem = Schema(dynamic=True)
    ditem.v = IntField(default=0)
    schema.dynitems = ListField(ditem, default=[{"v": 3}])
    schema.dynitems2 = ListField(ditem, default=[{"v": 4}])
    return schema


def _schema_snapshot(schema):
    out = []
    for path, _, field in get_all_fields(schema):
        entry = [path, type(field).__name__]
        if isinstance(field, Field):
            entry.append(copy.deepcopy(field._default) if not callable(field._default) else "callable")
            entry.append((field.required, field.env, field.sensitive))
        if isinstance(field, ListField) and isinstance(field.field, Schema):
            entry.append([(p, type(f).__name__, copy.deepcopy(getattr(f, "_default", None)))
                          for p, _, f in get_all_fields(field.field)])
        out.append(entry)
    return out


OPS = ("lst_append", "raw_append", "dct_set", "rawd_set", "ld_item_set", "sub_set", "sub_l2_append", "ct_set",
       "ct_names_append", "items1_append", "items1_item_set", "items1_tags_append", "dyn_add", "reset_then_append",
       "load_tree", "reassign_then_append", "items2_from_items1", "dyn_load", "dyn_item_load", "dyn_dotted", "anyl_append", "dyn_then_render")


def _apply(c1: Config, op: str, x: int):
    if op == "lst_append":
        c1.lst.append(x)
    elif op == "raw_append":
        c1.raw.append(x)
    elif op == "dct_set":
        c1.dct["j"] = x
    elif op == "rawd_set":
        c1.rawd["j"] = x
    elif op == "ld_item_set":
        c1.ld[0]["j"] = x
    elif op == "sub_set":
        c1.sub.b = x
    elif op == "sub_l2_append":
        c1.sub.l2.append(x)
    elif op == "ct_set":
        c1.ct.v = x
    elif op == "ct_names_append":
        c1.ct.names.append("m")
    elif op == "items1_append":
        c1.items1.append({"v": x})
    elif op == "items1_item_set":
        c1.items1[0].v = x
    elif op == "items1_tags_append":
        c1.items1[0].tags.append(x)
    elif op == "dyn_add":
        c1.extra = x
    elif op == "reset_then_append":
        reset_value(c1, "lst")
        c1.lst.append(x)
        reset_value(c1, "dct")
        c1.dct["z"] = x
    elif op == "load_tree":
        c1.load_tree({"lst": [x], "sub": {"b": x, "l2": [x]}, "items1": [{"v": x, "tags": [x]}], "ct": {"v": x}})
        c1.lst.append(x)
        c1.items1[0].tags.append(x)
    elif op == "reassign_then_append":
        c1.lst = c1.lst
        c1.lst.append(x)
        c1.dct = c1.dct
        c1.dct["q"] = x
    elif op == "dyn_then_render":
        c1.extra_r = x
        c1.dynitems[0].extra_in_item = x
        c1.to_tree()
        c1.dumps(format="json")
    elif op == "dyn_dotted":
        for key in ("newsec.port", "newsec"):
            try:
                c1[key] = x          # unknown head: may be refused, must never touch the schema
            except (AttributeError, KeyError, TypeError, ValueError):
                pass
    elif op == "anyl_append":
        c1.anyl.append(x)
        c1.anyl[0] = "changed"
        reset_value(c1, "anyl")
        c1.anyl.append(x)
    elif op == "dyn_load":
        c1.load_tree({"extra_loaded": x})
    elif op == "dyn_item_load":
        c1.dynitems.append({"v": x, "extra_item": x})
        c1.dynitems = [{"extra_item2": x}]
    elif op == "items2_from_items1":
        c1.items2 = list(c1.items1)
        c1.items2[0].v = x
    else:
        raise AssertionError(op)


def _mk(first: str):
    @obligation(prop="C13", name="share_" + first, group="share", sites=("c2", "schema", "fresh"), encodes=ENC,
                budget={"quick": 240, "thorough": 600},
                what="two configurations of one schema (built before or after each other's mutations); operation "
                     "%s then optionally one of 22 further operations on the first: the second configuration, the "
                     "schema's declared defaults/field set/options and a configuration built afterwards are "
                     "unchanged" % first)
    def ob(second: int, c2_first: bool, x: int) -> bool:
        """
        pre: -1 <= second < 22 and 1000 <= x <= 2000
        post: _
        """
        schema = _schema()
        snap_schema = _schema_snapshot(schema)
        fresh0 = plain(schema())
        if c2_first:
            c2 = schema()
        c1 = schema()
        if not c2_first:
            c2 = schema()
        snap2 = plain(c2)
        _apply(c1, first, x)
        for i in range(len(OPS)):
            if second == i:
                _apply(c1, OPS[i], x + 1)
        hold("c2", plain(c2) == snap2, lambda: "the other configuration changed: %r -> %r" % (snap2, plain(c2)))
        hold("c2", "extra" not in c2 and "extra_loaded" not in c2 and "newsec" not in c2 and "extra_r" not in c2, "dynamic field leaked into the other configuration")
        hold("schema", _schema_snapshot(schema) == snap_schema, "schema defaults / field set / options changed")
        c3 = schema()
        hold("fresh", plain(c3) == fresh0, lambda: "a configuration built afterwards differs: %r vs %r" % (plain(c3), fresh0))
        return True


for _o in OPS:
    _mk(_o)


# --------------------------------------------------------------------------- configuration objects inside a default
@obligation(prop="C13", sites=("isolated",), regions=("config_object_in_default",), budget={"quick": 60, "thorough": 120},
            encodes=["cincoconfig.fields.list_field.ListField.__setdefault__"],
            what="a list of configurations whose declared default holds its items as maps or as configuration "
                 "OBJECTS (config-type instance or schema instance; symbolic): mutating the item through one "
                 "configuration is not visible through another one built before or after, nor in the declared default")
def share_config_objects_in_default(as_object: bool, typed: bool, second_first: bool, x: int) -> bool:
    """
    pre: 1 <= x <= 9
    post: _
    """
    from vf.hlib import known
    item = Schema()
    item.v = IntField(default=0)
    Item = make_type_nt(item, "Item") if typed else item
    schema = Schema()
    first_default = Item() if as_object else {"v": 0}
    schema.f = ListField(Item, default=[first_default])
    known("config_object_in_default", as_object)
    if second_first:
        other = schema()
        mine = schema()
    else:
        mine = schema()
        other = schema()
    mine.f[0].v = x
    later = schema()
    hold("isolated", mine.f[0].v == x, "the mutation itself was lost")
    hold("isolated", other.f[0].v == 0, "item mutated through one configuration changed in another configuration")
    hold("isolated", later.f[0].v == 0, "a configuration built afterwards sees the mutation")
    d0 = schema.f.default[0]
    hold("isolated", (d0.v if as_object else d0["v"]) == 0, "the declared default was altered")
    return True


# --------------------------------------------------------------------------- nested typed containers in a default
@obligation(prop="C13", sites=("isolated",), budget={"quick": 120, "thorough": 240},
            encodes=["cincoconfig.fields.list_field.ListField.__setdefault__", "cincoconfig.fields.list_field.ListField._validate",
                     "cincoconfig.fields.dict_field.DictField.__setdefault__"],
            what="typed containers nested in a typed container's declared default (list of typed lists, typed dict of "
                 "typed lists; the inner list EMPTY or not, symbolic): appending to the inner list of one "
                 "configuration shows neither in another configuration (built before or after), nor after a reset, "
                 "nor in the declared default")
def share_nested_typed_defaults(in_dict: bool, empty_inner: bool, second_first: bool, reset_first: bool, x: int) -> bool:
    """
    pre: 1 <= x <= 9
    post: _
    """
    schema = Schema()
    schema.ll = ListField(ListField(IntField()), default=[[], [1]])
    schema.dl = DictField(StringField(), ListField(IntField()), default={"e": [], "n": [1]})
    if second_first:
        other = schema()
        mine = schema()
    else:
        mine = schema()
        other = schema()
    if reset_first:
        reset_value(mine, "ll")
        reset_value(mine, "dl")
    if in_dict:
        inner = mine.dl["e" if empty_inner else "n"]
    else:
        inner = mine.ll[0 if empty_inner else 1]
    inner.append(x)
    base = [] if empty_inner else [1]
    hold("isolated", list(inner) == base + [x], "the mutation itself was lost")
    try:
        inner.append("not a number")
        typed_still = False
    except ValueError:
        typed_still = True
    hold("isolated", typed_still, "the inner list of the default is not a validating typed list")
    later = schema()
    for label, c in (("another configuration", other), ("a configuration built afterwards", later)):
        got = plain(c)
        hold("isolated", got == {"ll": [[], [1]], "dl": {"e": [], "n": [1]}},
             lambda: "%s sees the mutation: %r" % (label, got))
    hold("isolated", schema.ll.default == [[], [1]] and schema.dl.default == {"e": [], "n": [1]},
         "the declared default was altered")
    reset_value(mine, "dl" if in_dict else "ll")
    hold("isolated", plain(mine) == {"ll": [[], [1]], "dl": {"e": [], "n": [1]}}, "reset does not restore the declared default")
    return True


# --------------------------------------------------------------------------- loads from files and field options
@obligation(prop="C13", sites=("options",), stubs=("FakeFS", "MemFormat"), budget={"quick": 120, "thorough": 240},
            encodes=["cincoconfig.core.Config.load", "cincoconfig.core.Config._process_includes",
                     "cincoconfig.fields.include_field.IncludeField.include"],
            what="two configurations of one schema with include fields (root and nested, with or without a declared "
                 "start directory) load FILES from two different directories, one after the other: every option of "
                 "every field of the schema is the same object / value afterwards (vars() of each field, every depth), "
                 "and the second configuration gets the values of ITS OWN directory's included file")
def file_loads_leave_field_options_alone(with_startdir: bool, nested: bool, second_too: bool) -> bool:
    """
    post: _
    """
    from cincoconfig import IncludeField
    from vf.hlib.stubs import FakeFS, MemStore
    mem = MemStore()
    fs = FakeFS(dirs=["/a", "/b", "/inc"])
    schema = Schema()
    owner = schema.sec if nested else schema
    owner.include = IncludeField(startdir="/inc" if with_startdir else None)
    owner.x = IntField(default=0)
    schema.other = IntField(default=1)

    def options():
        out = []
        for path, _, field in get_all_fields(schema):
            out.append((path, sorted((k, (id(v) if not isinstance(v, (str, int, bool, type(None))) else v))
                                     for k, v in vars(field).items() if k != "_fields")))
        return out
    before = options()
    # the files: main documents in /a and /b name a RELATIVE include; it exists next to each of them (and in /inc)
    for d, val in (("/a", 10), ("/b", 20), ("/inc", 30)):
        fs.files[d + "/part.mem"] = mem.put({"x": val})
    inc_leaf = {"include": "/a/part.mem" if not with_startdir else "part.mem"}
    for d in ("/a", "/b"):
        leaf = {"include": (d + "/part.mem") if not with_startdir else "part.mem"}
        fs.files[d + "/main.mem"] = mem.put({"sec": leaf} if nested else dict(leaf))
    with fs.patched(), mem.registered():
        c1, c2 = schema(), schema()
        c1.load("/a/main.mem", format="mem")
        if second_too:
            c2.load("/b/main.mem", format="mem")
    hold("options", options() == before, lambda: "a file load changed field options of the schema: %r -> %r" % (before, options()))
    want1 = 30 if with_startdir else 10
    hold("options", (c1.sec if nested else c1).x == want1, "first configuration did not get its included value")
    if second_too:
        want2 = 30 if with_startdir else 20
        hold("options", (c2.sec if nested else c2).x == want2,
             lambda: "the second configuration got %r from its include, expected %r" % ((c2.sec if nested else c2).x, want2))
    return True
