"""C05 - NumberField family: exactness, idempotence, on-disk inverse."""
from typing import Optional, Union

from cincoconfig import IntField, FloatField, PortField, Schema

from vf.hlib import hold, known, obligation, skip

ENC = ["cincoconfig.fields.number_field.NumberField._validate", "cincoconfig.core.Field.validate"]


def _cfg():
    return Schema()()


@obligation(prop="C05", sites=("accept", "reject"), encodes=ENC,
            what="IntField(min,max).validate(int) accepts exactly min<=v<=max, returns v, idempotent")
def int_bounds_exact(a: Optional[int], b: Optional[int], v: int) -> bool:
    """
    post: _
    """
    f = IntField(min=a, max=b)
    cfg = _cfg()
    want = (a is None or v >= a) and (b is None or v <= b)
    try:
        r = f.validate(cfg, v)
    except ValueError:
        return hold("reject", not want, "rejected a value inside the bounds")
    hold("accept", want, "accepted a value outside the bounds")
    hold("accept", type(r) is int and r == v, "normal form differs")
    r2 = f.validate(cfg, r)
    hold("accept", r2 == r, "not idempotent")
    hold("accept", f.to_python(cfg, f.to_basic(cfg, r)) == r, "to_python(to_basic) differs")
    return True


def _isnan(x) -> bool:
    return x != x


@obligation(prop="C05", sites=("accept", "reject"), encodes=ENC, regions=("nan",),
            what="FloatField(min,max).validate(float): accepted => min<=r<=max (NaN, inf included)")
def float_bounds_exact(a: Optional[float], b: Optional[float], v: float) -> bool:
    """
    pre: a is None or -1e9 <= a <= 1e9
    pre: b is None or -1e9 <= b <= 1e9
    post: _
    """
    known("nan", _isnan(v) and (a is not None or b is not None))
    f = FloatField(min=a, max=b)
    cfg = _cfg()
    want = (a is None or v >= a) and (b is None or v <= b)
    try:
        r = f.validate(cfg, v)
    except ValueError:
        return hold("reject", not want, "rejected a value inside the bounds")
    hold("accept", want, "accepted a value outside the bounds")
    hold("accept", type(r) is float and (r == v or (_isnan(r) and _isnan(v))), "normal form differs")
    r2 = f.validate(cfg, r)
    hold("accept", r2 == r or _isnan(r), "not idempotent")
    return True


FRACS = (0.5, -0.5, 1023.5, 2.0, -3.25, 1e300)


@obligation(prop="C05", sites=("accept", "reject"), encodes=ENC, budget={"quick": 120, "thorough": 300},
            what="IntField / PortField declared with NON-INTEGRAL bounds (the signature allows int or float; bounds "
                 "from a menu incl. +-0.5, 1023.5): an integer (menu around the bounds) is accepted iff min <= v <= max in exact arithmetic")
def int_field_fractional_bounds(ai: int, bi: int, vi: int, use_min: bool, use_max: bool, port: bool) -> bool:
    """
    pre: 0 <= ai < 6 and 0 <= bi < 6 and 0 <= vi < 8
    post: _
    """
    from cincoconfig import PortField
    v = 0
    for n, cand in enumerate((0, 1, -1, 2, 1023, 1024, -3, -4)):
        if vi == n:
            v = cand
    a = b = None
    for n in range(6):
        if use_min and ai == n:
            a = FRACS[n]
        if use_max and bi == n:
            b = FRACS[n]
    if not use_min and ai:
        skip("unused")
    if not use_max and bi:
        skip("unused")
    kw = {}
    if a is not None:
        kw["min"] = a
    if b is not None:
        kw["max"] = b
    f = PortField(**kw) if port else IntField(**kw)
    lo = a if a is not None else (1 if port else None)
    hi = b if b is not None else (65535 if port else None)
    want = (lo is None or v >= lo) and (hi is None or v <= hi)
    try:
        r = f.validate(_cfg(), v)
    except ValueError:
        return hold("reject", not want, lambda: "%r rejected with bounds (%r, %r)" % (v, lo, hi))
    hold("accept", want and r == v, lambda: "%r accepted with bounds (%r, %r)" % (v, lo, hi))
    return True


import enum


class _Status(enum.IntEnum):
    OK = 200
    TEAPOT = 418


class _MyInt(int):
    pass


class _MyFloat(float):
    pass


class _MyStr(str):
    pass


SUBCLASS_INPUTS = (_Status.OK, _Status.TEAPOT, _MyInt(7), _MyFloat(7.0), _MyStr("12"), _MyStr("x"), True)


@obligation(prop="C05", sites=("accept", "reject"), encodes=ENC, budget={"quick": 120, "thorough": 300},
            what="IntField / FloatField / PortField given values whose type is a SUBCLASS of int / float / str (IntEnum "
                 "member, int/float/str subclasses) with bounds from a menu: judged by their numeric value like the plain "
                 "type and normalised to a plain int / float; bool stays rejected")
def number_subclass_inputs(si: int, ai: int, bi: int, which: int) -> bool:
    """
    pre: 0 <= si < 7 and 0 <= which <= 2 and 0 <= ai <= 2 and 0 <= bi <= 2
    post: _
    """
    from cincoconfig import PortField
    a = b = None
    for n, (ca, cb) in enumerate(((None, None), (0, 100), (300, 500))):
        if ai == n:
            a = ca
        if bi == n:
            b = cb
    v = SUBCLASS_INPUTS[0]
    for n in range(7):
        if si == n:
            v = SUBCLASS_INPUTS[n]
    if which == 2:
        if a is not None or b is not None:
            skip("port: fixed bounds")
        f, lo, hi, typ = PortField(), 1, 65535, int
    elif which == 1:
        f, lo, hi, typ = FloatField(min=a, max=b), a, b, float
    else:
        f, lo, hi, typ = IntField(min=a, max=b), a, b, int
    if isinstance(v, bool):
        num = None
    elif isinstance(v, str):
        num = typ(12) if v == "12" else None
    else:
        num = typ(v)
    want = num is not None and (lo is None or num >= lo) and (hi is None or num <= hi)
    try:
        r = f.validate(_cfg(), v)
    except ValueError:
        return hold("reject", not want, lambda: "%r (%s) rejected by %s with bounds (%r, %r)" % (
            v, type(v).__name__, type(f).__name__, lo, hi))
    hold("accept", want, lambda: "%r accepted with bounds (%r, %r)" % (v, lo, hi))
    hold("accept", type(r) is typ and r == num, lambda: "normal form %r (%s)" % (r, type(r).__name__))
    return True
