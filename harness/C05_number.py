"""C05 - NumberField family: exactness, idempotence, on-disk inverse."""
from typing import Optional, Union

from cincoconfig import IntField, FloatField, PortField, Schema

from vf.hlib import hold, known, obligation, skip

ENC = ["cincoconfig.fields.number_field.NumberField._validate", "cincoconfig.core.Field.validate"]


def _cfg():
    return Schema()()


@obligation(prop="C05", sites=("accept", "reject"), encodes=ENC,
            what="IntField(min,max).validate(int) accepts exactly min<=v<=max, returns v, idempotent")
def int_bounds_exact(a: Optional[int], b: Optional[int], v: int) -> bool:
    """
    post: _
    """
    f = IntField(min=a, max=b)
    cfg = _cfg()
    want = (a is None or v >= a) and (b is None or v <= b)
    try:
        r = f.validate(cfg, v)
    except ValueError:
        return hold("reject", not want, "rejected a value inside the bounds")
    hold("accept", want, "accepted a value outside the bounds")
    hold("accept", type(r) is int and r == v, "normal form differs")
    r2 = f.validate(cfg, r)
    hold("accept", r2 == r, "not idempotent")
    hold("accept", f.to_python(cfg, f.to_basic(cfg, r)) == r, "to_python(to_basic) differs")
    return True


def _isnan(x) -> bool:
    return x != x


@obligation(prop="C05", sites=("accept", "reject"), encodes=ENC, regions=("nan",),
            what="FloatField(min,max).validate(float): accepted => min<=r<=max (NaN, inf included)")
def float_bounds_exact(a: Optional[float], b: Optional[float], v: float) -> bool:
    """
    pre: a is None or -1e9 <= a <= 1e9
    pre: b is None or -1e9 <= b <= 1e9
    post: _
    """
    known("nan", _isnan(v) and (a is not None or b is not None))
    f = FloatField(min=a, max=b)
    cfg = _cfg()
    want = (a is None or v >= a) and (b is None or v <= b)
    try:
        r = f.validate(cfg, v)
    except ValueError:
        return hold("reject", not want, "rejected a value inside the bounds")
    hold("accept", want, "accepted a value outside the bounds")
    hold("accept", type(r) is float and (r == v or (_isnan(r) and _isnan(v))), "normal form differs")
    r2 = f.validate(cfg, r)
    hold("accept", r2 == r or _isnan(r), "not idempotent")
    return True
