"""C17 - typed list/dict values behave like built-in list/dict of validated (normalised) items.

Inductive step: from an arbitrary valid proxy state (n0 items with symbolic values) apply ONE operation with
symbolic arguments to the proxy and to a built-in reference holding the oracle-normalised items; compare
contents, order, length, return value and raised exception type.  One obligation per operation.
"""
from typing import Optional

from cincoconfig import DictField, IntField, ListField, Schema, StringField
from cincoconfig.fields.dict_field import DictProxy
from cincoconfig.fields.list_field import ListProxy

from vf.hlib import hold, known, obligation, skip

ENC_L = ["cincoconfig.fields.list_field.ListProxy.__init__"]
ENC_D = ["cincoconfig.fields.dict_field.DictProxy.__init__", "cincoconfig.fields.dict_field.DictProxy._validate"]


# ----------------------------------------------------------------------------- list
def norm_item(x):
    """oracle normal form for ListField(StringField(transform_case='upper', transform_strip=True)) / IntField"""
    if isinstance(x, str):
        return x.strip().upper()
    return x


def _list_env(use_str: bool):
    schema = Schema()
    if use_str:
        schema.lst = ListField(StringField(transform_case="upper", transform_strip=True), default=lambda: [])
        schema.other = ListField(StringField(), default=lambda: [])
    else:
        schema.lst = ListField(IntField(min=0, max=100), default=lambda: [])
        schema.other = ListField(IntField(), default=lambda: [])
    cfg = schema()
    return schema, cfg


def _iterable(kind: int, items, schema, cfg):
    """0 list, 1 tuple, 2 iterator, 3 same-field proxy, 4 other-field proxy, 5 generator"""
    if kind == 0:
        return list(items)
    if kind == 1:
        return tuple(items)
    if kind == 2:
        return iter(list(items))
    if kind == 3:
        return ListProxy(cfg, schema.lst, list(items))
    if kind == 4:
        return ListProxy(cfg, schema.other, list(items))
    if kind == 5:
        return (i for i in list(items))
    skip("kind")


def _both(fn_proxy, fn_ref):
    """run an operation on both sides; -> (ret_p, exc_p, ret_r, exc_r)"""
    try:
        rp, ep = fn_proxy(), None
    except Exception as e:  # noqa: BLE001
        rp, ep = None, e
    try:
        rr, er = fn_ref(), None
    except Exception as e:  # noqa: BLE001
        rr, er = None, e
    return rp, ep, rr, er


STEP = [None]   # set per obligation (extended slices)


LIST_OPS = ("append", "insert", "extend", "setitem", "setslice", "iadd", "add", "mul", "imul", "copy",
            "pop", "remove", "delitem", "sort", "reverse", "clear", "queries", "init", "setitem_indexobj",
            "insert_indexobj")


class _Idx:
    """an index that is not an int instance but implements __index__ (numpy integers, IntEnum-like wrappers)"""

    def __init__(self, i):
        self.i = i

    def __index__(self):
        return self.i


def _list_step(op: str, use_str: bool, n0: int, a, b, c, x, y, idx: int, j: int, kind: int) -> bool:
    schema, cfg = _list_env(use_str)
    init = [a, b, c][:n0]
    cfg.lst = list(init)
    proxy = cfg.lst
    hold("state", type(proxy) is ListProxy, "typed list value is not a ListProxy")
    ref = [norm_item(i) for i in init]
    hold("state", list(proxy) == ref, "initial contents differ")
    extra = [x, y]
    nextra = [norm_item(x), norm_item(y)]
    typed_result = None
    if op == "append":
        r = _both(lambda: proxy.append(x), lambda: ref.append(norm_item(x)))
    elif op == "insert":
        r = _both(lambda: proxy.insert(idx, x), lambda: ref.insert(idx, norm_item(x)))
    elif op == "extend":
        it = _iterable(kind, extra, schema, cfg)
        r = _both(lambda: proxy.extend(it), lambda: ref.extend(nextra))
    elif op == "setitem":
        def _set_ref():
            ref[idx] = norm_item(x)

        def _set_proxy():
            proxy[idx] = x
        r = _both(_set_proxy, _set_ref)
    elif op == "setitem_indexobj":
        # j selects the kind of index: an __index__ object, or something list itself refuses (str, None, float)
        ci = 0
        for cand in range(-4, 5):
            if idx == cand:
                ci = cand
        index = _Idx(ci) if j == 0 else ("0" if j == 1 else (None if j == 2 else 0.0))

        def _set_ref():
            ref[index] = norm_item(x)

        def _set_proxy():
            proxy[index] = x
        r = _both(_set_proxy, _set_ref)
    elif op == "insert_indexobj":
        ci = 0
        for cand in range(-4, 5):     # a CONCRETE int inside the index object (the engine's model of comparing a
            if idx == cand:           # foreign object with a symbolic int differs from CPython's)
                ci = cand
        index = _Idx(ci) if j == 0 else ("0" if j == 1 else (None if j == 2 else 0.0))
        r = _both(lambda: proxy.insert(index, x), lambda: ref.insert(index, norm_item(x)))
    elif op == "setslice":
        it = _iterable(kind, extra, schema, cfg)

        step = STEP[0]

        def _sl_ref():
            if step is None:
                ref[idx:j] = nextra
            else:
                ref[idx:j:step] = nextra

        def _sl_proxy():
            if step is None:
                proxy[idx:j] = it
            else:
                proxy[idx:j:step] = it
        r = _both(_sl_proxy, _sl_ref)
    elif op == "iadd":
        it = _iterable(kind, extra, schema, cfg)

        def _ia_proxy():
            nonlocal proxy
            before = proxy
            proxy += it
            return proxy is before

        def _ia_ref():
            nonlocal ref
            before = ref
            ref += nextra
            return ref is before
        r = _both(_ia_proxy, _ia_ref)
    elif op == "add":
        it = _iterable(kind if kind not in (2, 5) else 0, extra, schema, cfg)  # list + iterator is a TypeError for list too
        if kind == 1:
            skip("list + tuple raises for the built-in")
        r = _both(lambda: proxy + it, lambda: ref + nextra)
        typed_result = r[0]
    elif op == "mul":
        r = _both(lambda: proxy * j, lambda: ref * j)
    elif op == "imul":
        def _im_proxy():
            nonlocal proxy
            proxy *= j

        def _im_ref():
            nonlocal ref
            ref *= j
        r = _both(_im_proxy, _im_ref)
    elif op == "copy":
        r = _both(lambda: proxy.copy(), lambda: ref.copy())
        typed_result = r[0]
    elif op == "pop":
        r = _both(lambda: proxy.pop(idx), lambda: ref.pop(idx))
    elif op == "remove":
        r = _both(lambda: proxy.remove(norm_item(x)), lambda: ref.remove(norm_item(x)))
    elif op == "delitem":
        def _d_proxy():
            del proxy[idx]

        def _d_ref():
            del ref[idx]
        r = _both(_d_proxy, _d_ref)
    elif op == "sort":
        if use_str:
            r = _both(lambda: proxy.sort(key=len, reverse=bool(j % 2)), lambda: ref.sort(key=len, reverse=bool(j % 2)))
        elif idx % 3 == 0:
            r = _both(lambda: proxy.sort(), lambda: ref.sort())
        else:
            # a key under which distinguishable items tie (stability shows), plain or reversed
            r = _both(lambda: proxy.sort(key=lambda v: v % 2, reverse=(idx % 3 == 2)),
                      lambda: ref.sort(key=lambda v: v % 2, reverse=(idx % 3 == 2)))
    elif op == "reverse":
        r = _both(lambda: proxy.reverse(), lambda: ref.reverse())
    elif op == "clear":
        r = _both(lambda: proxy.clear(), lambda: ref.clear())
    elif op == "queries":
        nx = norm_item(x)
        r = _both(lambda: (len(proxy), proxy.count(nx), nx in proxy, proxy == ref, proxy[idx:j], proxy.index(nx)),
                  lambda: (len(ref), ref.count(nx), nx in ref, True, ref[idx:j], ref.index(nx)))
    elif op == "init":
        it = _iterable(kind, extra, schema, cfg)
        r = _both(lambda: list(ListProxy(cfg, schema.lst, it)), lambda: list(nextra))
    else:
        raise AssertionError(op)
    rp, ep, rr, er = r
    hold("op", (ep is None) == (er is None),
         lambda: "%s: proxy raised %r, built-in raised %r" % (op, ep, er))
    if ep is not None:
        hold("op", type(ep) is type(er) or isinstance(ep, type(er)), lambda: "%s: exception types differ: %r vs %r" % (op, ep, er))
    else:
        if isinstance(rr, list) or isinstance(rr, tuple):
            hold("op", list(rp) == list(rr) if isinstance(rr, list) else rp == rr, lambda: "%s: return values differ" % op)
        else:
            hold("op", rp == rr, lambda: "%s: return values differ: %r vs %r" % (op, rp, rr))
    hold("op", list(proxy) == ref and len(proxy) == len(ref), lambda: "%s: contents/order/length differ from the built-in" % op)
    hold("op", type(proxy) is ListProxy, lambda: "%s: value is no longer typed" % op)
    if typed_result is not None and ep is None:
        hold("typed", type(typed_result) is ListProxy, lambda: "%s: result is not a typed list" % op)
        bad = -1 if not use_str else 5
        try:
            typed_result.append(bad)
            ok = False
        except Exception:  # noqa: BLE001
            ok = True
        hold("typed", ok, lambda: "%s: result accepts an invalid item" % op)
        hold("typed", list(proxy) == ref, lambda: "%s: mutating the result changed the original" % op)
    return True


def _mk_list(op: str):
    sites = ("state", "op") + (("typed",) if op in ("add", "copy") else ())

    @obligation(prop="C17", name="list_int_" + op, group="list_int_" + op, sites=sites, encodes=ENC_L,
                budget={"quick": 300, "thorough": 600},
                what="ListProxy.%s vs built-in list from an arbitrary valid state (IntField(0..100) items, "
                     "n0<=3), symbolic arguments, 6 iterable kinds" % op)
    def ob_int(n0: int, a: int, b: int, c: int, x: int, y: int, idx: int, j: int, kind: int) -> bool:
        """
        pre: 0 <= n0 <= 3 and -4 <= idx <= 4 and -4 <= j <= 4 and 0 <= kind <= 5
        pre: 0 <= a <= 100 and 0 <= b <= 100 and 0 <= c <= 100 and 0 <= x <= 100 and 0 <= y <= 100
        post: _
        """
        _prune(op, idx, j, kind)
        if op == "queries" and (n0 > 2 or not -2 <= idx <= 2 or not -2 <= j <= 2):
            skip("queries: smaller ranges")
        if op == "setslice" and (n0 > 2 or not -3 <= idx <= 3 or not -3 <= j <= 3):
            skip("setslice: smaller ranges")
        return _list_step(op, False, n0, a, b, c, x, y, idx, j, kind)

    if op in ("append", "insert", "extend", "setitem", "setslice", "iadd", "add", "init", "remove", "queries"):
        @obligation(prop="C17", name="list_str_" + op, group="list_str_" + op, sites=sites, encodes=ENC_L,
                    budget={"quick": 400, "thorough": 800},
                    what="ListProxy.%s vs built-in list of normalised items (StringField strip+upper, strings from a menu with leading/trailing blanks and mixed case, "
                         "n0<=2): what is stored is the normalised form" % op)
        def ob_str(n0: int, ai: int, xi: int, yi: int, idx: int, j: int, kind: int) -> bool:
            """
            pre: 0 <= n0 <= 2 and -3 <= idx <= 3 and -3 <= j <= 3 and 0 <= kind <= 5
            pre: 0 <= ai <= 3 and 0 <= xi <= 3 and 0 <= yi <= 3
            post: _
            """
            _prune(op, idx, j, kind)
            if op not in ("extend", "setslice", "iadd", "add", "init") and yi:
                skip("second value unused")
            if op in ("queries", "setslice") and not (-2 <= idx <= 2 and -2 <= j <= 2):
                skip("smaller ranges")
            if op in ("queries", "setslice") and ai:
                skip("initial item pinned")
            if op == "setslice" and (n0 > 1 or yi != (xi + 1) % 4):
                skip("setslice: second value tied to the first")
            return _list_step(op, True, n0, _s(ai), "B", "", _s(xi), _s(yi), idx, j, kind)


STRS = (" a", "b ", "C", "")


def _s(i):
    for n in range(len(STRS)):
        if i == n:
            return STRS[n]
    skip("menu")


def _prune(op, idx, j, kind):
    """arguments an operation does not use are pinned (avoids exploring the same behaviour repeatedly)"""
    uses_idx = op in ("insert", "setitem", "setslice", "pop", "delitem", "queries", "sort", "setitem_indexobj",
                      "insert_indexobj")
    uses_j = op in ("setslice", "mul", "imul", "queries", "setitem_indexobj", "insert_indexobj")
    if op in ("setitem_indexobj", "insert_indexobj") and not 0 <= j <= 3:
        skip("index kind")
    uses_kind = op in ("extend", "setslice", "iadd", "add", "init")
    if not uses_idx and idx != 0:
        skip("idx unused")
    if not uses_j and j != 0:
        skip("j unused")
    if not uses_kind and kind != 0:
        skip("kind unused")


for _op in LIST_OPS:
    if _op != "setslice":
        _mk_list(_op)


def _mk_setslice(kind: int):
    @obligation(prop="C17", name="list_int_setslice_k%d" % kind, group="list_int_setslice", sites=("state", "op"),
                encodes=ENC_L, budget={"quick": 200, "thorough": 500},
                what="ListProxy[i:j] = iterable (kind fixed per obligation: list/tuple/iterator/same proxy/other "
                     "proxy/generator) vs built-in list, IntField items, n0<=2, i,j in -3..3")
    def ob_int(n0: int, a: int, b: int, x: int, y: int, idx: int, j: int) -> bool:
        """
        pre: 0 <= n0 <= 2 and -3 <= idx <= 3 and -3 <= j <= 3
        pre: 0 <= a <= 100 and 0 <= b <= 100 and 0 <= x <= 100 and 0 <= y <= 100
        post: _
        """
        return _list_step("setslice", False, n0, a, b, 0, x, y, idx, j, kind)

    @obligation(prop="C17", name="list_str_setslice_k%d" % kind, group="list_str_setslice", sites=("state", "op"),
                encodes=ENC_L, budget={"quick": 400, "thorough": 800},
                what="ListProxy[i:j] = iterable (kind fixed) vs built-in list of normalised strings (menu), n0<=1, "
                     "i,j in -2..2")
    def ob_str(n0: int, xi: int, idx: int, j: int) -> bool:
        """
        pre: 0 <= n0 <= 1 and -2 <= idx <= 2 and -2 <= j <= 2 and 0 <= xi <= 3
        post: _
        """
        return _list_step("setslice", True, n0, " a", "B", "", _s(xi), _s((xi + 1) % 4), idx, j, kind)


for _k in range(6):
    _mk_setslice(_k)


def _mk_extslice(step: int):
    @obligation(prop="C17", name="list_int_extslice_s%s" % str(step).replace("-", "m"), group="list_int_extslice",
                sites=("state", "op"), encodes=ENC_L, budget={"quick": 500, "thorough": 900},
                what="ListProxy[i:j:%d] = iterable vs built-in list (extended slice: sizes must match, negative "
                     "steps run backwards, open ends), IntField items, n0<=3, i,j in -3..3 or open, list / iterator" % step)
    def ob(n0: int, a: int, b: int, c: int, x: int, y: int, idx: int, j: int, kind: int) -> bool:
        """
        pre: 0 <= n0 <= 3 and -4 <= idx <= 3 and -4 <= j <= 3 and 0 <= kind <= 1
        pre: 0 <= a <= 100 and 0 <= b <= 100 and 0 <= c <= 100 and 0 <= x <= 100 and 0 <= y <= 100
        post: _
        """
        STEP[0] = step
        try:     # (-4 stands for an open end)
            return _list_step("setslice", False, n0, a, b, c, x, y, None if idx == -4 else idx,
                              None if j == -4 else j, (0, 2)[kind])
        finally:
            STEP[0] = None


for _step in (-1, 2, -2):
    _mk_extslice(_step)


# ----------------------------------------------------------------------------- dict
KEYS = ("a", "B", "c")
DICT_OPS = ("setitem", "update_map", "update_pairs", "update_kw", "update_both", "update_proxy", "setdefault",
            "ior", "pop", "popitem", "delitem", "clear", "copy", "queries", "init",
            "update_kw_names", "update_mapping", "update_nothing", "setdefault_nodefault")


def nk(k):
    return k.upper()


def _dict_step(op: str, m0: int, v0: int, v1: int, ki: int, kj: int, x: int, y: int) -> bool:
    schema = Schema()
    schema.d = DictField(StringField(transform_case="upper"), IntField(min=0, max=100), default=lambda: {})
    schema.o = DictField(StringField(), IntField(), default=lambda: {})
    cfg = schema()
    init = {}
    if m0 >= 1:
        init["a"] = v0 if v0 != 100 else None     # (v0 == 100 stands for a stored None: fields accept None)
    if m0 >= 2:
        init["B"] = v1
    cfg.d = dict(init)
    proxy = cfg.d
    hold("state", type(proxy) is DictProxy, "typed dict value is not a DictProxy")
    ref = {nk(k): v for k, v in init.items()}
    hold("state", dict(proxy) == ref, "initial contents differ")
    k1 = KEYS[0]
    k2 = KEYS[0]
    for i in range(len(KEYS)):
        if ki == i:
            k1 = KEYS[i]
        if kj == i:
            k2 = KEYS[i]
    arg = {k1: x, k2: y}
    narg = {nk(k): v for k, v in arg.items()}
    typed_result = None
    if op == "setitem":
        def _p():
            proxy[k1] = x

        def _r():
            ref[nk(k1)] = x
        r = _both(_p, _r)
    elif op == "update_map":
        r = _both(lambda: proxy.update(dict(arg)), lambda: ref.update(narg))
    elif op == "update_pairs":
        r = _both(lambda: proxy.update(list(arg.items())), lambda: ref.update(list(narg.items())))
    elif op == "update_kw":
        r = _both(lambda: proxy.update(**arg), lambda: ref.update(**narg))
    elif op == "update_both":
        r = _both(lambda: proxy.update({k1: x}, **{k2: y}), lambda: ref.update({nk(k1): x}, **{nk(k2): y}))
    elif op == "update_proxy":
        other = DictProxy(cfg, schema.o, dict(arg))
        same = DictProxy(cfg, schema.d, dict(arg))
        r = _both(lambda: (proxy.update(other), proxy.update(same)), lambda: (ref.update(narg), ref.update(narg)))
    elif op == "setdefault":
        r = _both(lambda: proxy.setdefault(k1, x), lambda: ref.setdefault(nk(k1), x))
    elif op == "update_kw_names":
        # keywords that collide with parameter names of a Python-level update(): every keyword is an entry
        r = _both(lambda: proxy.update(self=x, iterable=y, other=x, kwargs=y),
                  lambda: ref.update(SELF=x, ITERABLE=y, OTHER=x, KWARGS=y))
    elif op == "update_mapping":
        import types
        r = _both(lambda: proxy.update(types.MappingProxyType(dict(arg))), lambda: ref.update(types.MappingProxyType(narg)))
    elif op == "update_nothing":
        r = _both(lambda: (proxy.update(), proxy.update({}), proxy.update(()), proxy.update({}, {})),
                  lambda: (ref.update(), ref.update({}), ref.update(()), ref.update({}, {})))
    elif op == "setdefault_nodefault":
        r = _both(lambda: proxy.setdefault(k1), lambda: ref.setdefault(nk(k1)))
    elif op == "ior":
        def _p():
            nonlocal proxy
            before = proxy
            proxy |= dict(arg)
            return proxy is before

        def _r():
            nonlocal ref
            before = ref
            ref |= narg
            return ref is before
        r = _both(_p, _r)
    elif op == "or":
        r = _both(lambda: dict(proxy | dict(arg)), lambda: ref | narg)
    elif op == "pop":
        r = _both(lambda: proxy.pop(nk(k1)), lambda: ref.pop(nk(k1)))
    elif op == "popitem":
        r = _both(lambda: proxy.popitem(), lambda: ref.popitem())
    elif op == "delitem":
        def _p():
            del proxy[nk(k1)]

        def _r():
            del ref[nk(k1)]
        r = _both(_p, _r)
    elif op == "clear":
        r = _both(lambda: proxy.clear(), lambda: ref.clear())
    elif op == "copy":
        r = _both(lambda: proxy.copy(), lambda: ref.copy())
        typed_result = r[0]
    elif op == "queries":
        q = nk(k1)
        r = _both(lambda: (len(proxy), q in proxy, proxy.get(q), list(proxy.keys()), list(proxy.values()),
                           list(proxy.items()), proxy == ref, proxy[q]),
                  lambda: (len(ref), q in ref, ref.get(q), list(ref.keys()), list(ref.values()),
                           list(ref.items()), True, ref[q]))
    elif op == "init":
        r = _both(lambda: dict(DictProxy(cfg, schema.d, list(arg.items()))), lambda: dict(list(narg.items())))
    else:
        raise AssertionError(op)
    rp, ep, rr, er = r
    hold("op", (ep is None) == (er is None), lambda: "%s: proxy raised %r, built-in raised %r" % (op, ep, er))
    if ep is not None:
        hold("op", isinstance(ep, type(er)), lambda: "%s: exception types differ: %r vs %r" % (op, ep, er))
    else:
        hold("op", (dict(rp) if isinstance(rr, dict) else rp) == rr, lambda: "%s: return values differ: %r vs %r" % (op, rp, rr))
    hold("op", dict(proxy) == ref and list(proxy.items()) == list(ref.items()) and len(proxy) == len(ref),
         lambda: "%s: contents/order/length differ from the built-in: %r vs %r" % (op, dict(proxy), ref))
    hold("op", type(proxy) is DictProxy, lambda: "%s: value is no longer typed" % op)
    if typed_result is not None and ep is None:
        hold("typed", type(typed_result) is DictProxy, "copy is not a typed dict")
        try:
            typed_result["z"] = -1
            ok = False
        except Exception:  # noqa: BLE001
            ok = True
        hold("typed", ok, "copy accepts an invalid value")
        hold("typed", dict(proxy) == ref, "mutating the copy changed the original")
    return True


def _mk_dict(op: str):
    sites = ("state", "op") + (("typed",) if op == "copy" else ())

    @obligation(prop="C17", name="dict_" + op, group="dict_" + op, sites=sites, encodes=ENC_D,
                budget={"quick": 120, "thorough": 400},
                what="DictProxy.%s vs built-in dict of normalised entries (keys StringField upper from a menu, "
                     "values IntField(0..100)), from an arbitrary valid state with <=2 entries" % op)
    def ob(m0: int, v0: int, v1: int, ki: int, kj: int, x: int, y: int) -> bool:
        """
        pre: 0 <= m0 <= 2 and 0 <= ki <= 2 and 0 <= kj <= 2
        pre: 0 <= v0 <= 100 and 0 <= v1 <= 100 and 0 <= x <= 100 and 0 <= y <= 100
        post: _
        """
        if op in ("popitem", "clear", "copy") and (ki or kj):
            skip("keys unused")
        if op == "init" and m0:
            skip("initial state unused")
        if op in ("setitem", "setdefault", "pop", "delitem", "queries", "setdefault_nodefault") and kj:
            skip("second key unused")
        if op in ("update_kw_names", "update_nothing") and (ki or kj):
            skip("keys unused")
        return _dict_step(op, m0, v0, v1, ki, kj, x, y)


for _op in DICT_OPS:
    _mk_dict(_op)


# ----------------------------------------------------------------------------- key / value fields that are AnyFields
@obligation(prop="C17", sites=("op",), encodes=ENC_D, budget={"quick": 120, "thorough": 240},
            what="a typed dict whose key and value fields are AnyFields WITH validators that normalise (keys "
                 "stripped and lower-cased, values made absolute): item assignment, update (map / pairs / keywords), "
                 "setdefault, |= and the constructor route store the normalised forms exactly like the built-in "
                 "dict holding them (differently spelled keys of one entry collapse)")
def dict_anyfield_validators(op_i: int, ki: int, kj: int, x: int, y: int) -> bool:
    """
    pre: 0 <= op_i <= 5 and 0 <= ki <= 3 and 0 <= kj <= 3 and -9 <= x <= 9 and -9 <= y <= 9
    post: _
    """
    from cincoconfig import AnyField
    spell = ("http", "HTTP ", " Http", "ftp")
    k1 = k2 = spell[0]
    for i in range(4):
        if ki == i:
            k1 = spell[i]
        if kj == i:
            k2 = spell[i]

    def nkey(k):
        return k.strip().lower()

    def nval(v):
        return -v if v < 0 else v
    schema = Schema()
    schema.d = DictField(AnyField(validator=lambda cfg, k: k.strip().lower()),
                         AnyField(validator=lambda cfg, v: -v if v < 0 else v), default=lambda: {})
    cfg = schema()
    cfg.d = {"http": 1}
    proxy = cfg.d
    hold("op", type(proxy) is DictProxy, "value is not a typed dict")
    ref = {"http": 1}
    if op_i == 0:
        proxy[k1] = x
        ref[nkey(k1)] = nval(x)
    elif op_i == 1:
        proxy.update({k1: x, k2: y})
        ref.update({nkey(k1): nval(x)})
        ref.update({nkey(k2): nval(y)})
    elif op_i == 2:
        proxy.update([(k1, x), (k2, y)])
        ref.update([(nkey(k1), nval(x)), (nkey(k2), nval(y))])
    elif op_i == 3:
        got = proxy.setdefault(k1, x)
        want = ref.setdefault(nkey(k1), nval(x))
        hold("op", got == want, lambda: "setdefault returned %r, built-in %r" % (got, want))
    elif op_i == 4:
        proxy |= {k1: x}
        ref[nkey(k1)] = nval(x)
    else:
        cfg.d = {k1: x, k2: y}
        proxy = cfg.d
        ref = {}
        ref[nkey(k1)] = nval(x)
        ref[nkey(k2)] = nval(y)
    hold("op", dict(proxy) == ref and list(proxy) == list(ref),
         lambda: "typed dict holds %r, the built-in dict of normalised entries %r" % (dict(proxy), ref))
    return True
