"""C01 - every value a configuration holds satisfies its field's declared constraints.

Inductive step per (route, target field kind): from a valid state apply ONE public mutating operation with an
argument of arbitrary shape; afterwards the invariant Inv (oracle predicate per field, written from the
documented option semantics) holds for every readable value, bystander fields are unchanged, and an accepted
assignment reads back as the oracle normal form.
"""
import argparse
from typing import Optional

from cincoconfig import (BoolField, DictField, FeatureFlagField, IntField, ListField, PortField, Schema, StringField,
                         cmdline_args_override, reset_value)
from cincoconfig.core import Config, ValidationError
from cincoconfig.fields.dict_field import DictProxy
from cincoconfig.fields.list_field import ListProxy

from vf.hlib import hold, obligation, skip
from vf.hlib.stubs import make_type_nt, plain

ENC = ["cincoconfig.core.Config._set_value", "cincoconfig.core.Field.validate"]

TARGETS = ("int", "str", "bool", "port", "lst", "dct", "items", "ct", "sub", "dyn", "portoff")
ROUTES = ("attr", "dotted", "ctor", "load_tree", "submap", "cmdline", "reset")


NUM_STRS = ("x", "", " 12 ", "0x1", "1e3")
TXT_STRS = ("", "Ab", "xyz", "ABCD", " a", "TRUE", "\u0130\u0130")  # last: lower() doubles its length
NUM_FLOATS = (2.5, -0.0, 7.0, float("inf"), float("nan"), -3.9)


def _arg(sel: int, v: int, w: int, f: float, t: str, symbolic_str: bool = True):
    if sel == 4:
        # strings from a menu (index w): int(<symbolic str>) enumerates strings, and str.lower() on symbolic
        # strings costs minutes of solver time; string exactness is C05's subject
        menu = NUM_STRS if not symbolic_str else TXT_STRS
        for i in range(len(menu)):
            if w == i:
                return menu[i]
        skip("menu")
    if sel == 3:
        # floats from a menu (index w): int(<symbolic float>) enumerates values, and CrossHair's two float models
        # make exhaustive verdicts on symbolic floats unstable; float exactness is C05's subject (K-fp)
        for i in range(len(NUM_FLOATS)):
            if w == i:
                return NUM_FLOATS[i]
        skip("menu")
    if sel == 0:
        return None
    if sel == 1:
        return True
    if sel == 2:
        return v
    if sel == 3:
        return f
    if sel == 4:
        return t
    if sel == 5:
        return [v]
    if sel == 6:
        return [v, w]
    if sel == 7:
        return {"k": v}
    if sel == 8:
        return {"v": v}
    if sel == 9:
        return [{"v": v}, {"v": w}]
    if sel == 10:
        return "7"
    if sel == 11:
        return (v, w)
    if sel == 12:
        return {"p": v}
    if sel in (13, 14):
        # a configuration built from ANOTHER schema whose equally named fields hold values the declared fields forbid
        foreign = Schema()
        foreign.v = StringField(default="hello")
        foreign.p = StringField(default="hello")
        foreign.q = StringField(default="q")
        return foreign() if sel == 13 else [foreign()]
    skip("sel")


def _schema(target: str, a: Optional[int], b: Optional[int], lo: Optional[int], hi: Optional[int], d: Optional[int]):
    # env="VFC01": every field gets an environment variable NAME (no variable is set): must change nothing
    schema = Schema(dynamic=(target == "dyn"), env="VFC01")
    schema.other = IntField(default=7)
    schema.sub.q = StringField(default="q")
    if target == "int":
        schema.x = IntField(min=a, max=b, default=lambda: d)
    elif target == "str":
        schema.x = StringField(min_len=lo, max_len=hi, transform_case="lower", default="ab")
    elif target == "bool":
        schema.x = BoolField(default=False)
    elif target in ("port", "sub"):
        schema.sub.p = PortField(default=80)
    elif target == "portoff":
        schema.sub.enabled = FeatureFlagField(default=False)   # a switched-off feature section
        schema.sub.p = PortField(default=80)
    elif target == "lst":
        schema.x = ListField(IntField(min=0), default=lambda: [1, 2])
    elif target == "dct":
        schema.x = DictField(StringField(transform_case="upper"), IntField(min=0), default=lambda: {"A": 1})
    elif target == "items":
        item = Schema()
        item.v = IntField(min=0, default=0)
        schema.x = ListField(item, default=lambda: [])
    elif target == "ct":
        t = Schema()
        t.v = IntField(min=0, default=0)
        schema.x = make_type_nt(t, "T")
    return schema


def _inv(target: str, cfg: Config, a, b, lo, hi) -> bool:
    """oracle predicate for every readable value (attribute access, iteration, nested)"""
    if cfg.other is not None and type(cfg.other) is not int:
        return False
    q = cfg.sub.q
    if q is not None and type(q) is not str:
        return False
    if target in ("port", "sub", "portoff"):
        p = cfg.sub.p
        return p is None or (type(p) is int and 1 <= p <= 65535)
    if target == "dyn":
        return True
    x = cfg.x
    if target == "int":
        return x is None or (type(x) is int and (a is None or x >= a) and (b is None or x <= b))
    if target == "str":
        return x is None or (type(x) is str and (lo is None or len(x) >= lo) and (hi is None or len(x) <= hi)
                             and x == x.lower())
    if target == "bool":
        return x is None or type(x) is bool
    if target == "lst":
        if x is None:
            return True
        if type(x) is not ListProxy:
            return False
        for i in x:
            if type(i) is not int or i < 0:
                return False
        return True
    if target == "dct":
        if x is None:
            return True
        if type(x) is not DictProxy:
            return False
        for k, val in x.items():
            if type(k) is not str or k != k.upper() or type(val) is not int or val < 0:
                return False
        return True
    if target == "items":
        if x is None:
            return True
        if type(x) is not ListProxy:
            return False
        for it in x:
            if not isinstance(it, Config):
                return False
            if it.v is not None and (type(it.v) is not int or it.v < 0):
                return False
        return True
    if target == "ct":
        return isinstance(x, Config) and (x.v is None or (type(x.v) is int and x.v >= 0))
    raise AssertionError(target)


def _others(cfg: Config):
    return (cfg.other, cfg.sub.q)


def _step(target: str, route: str, sel: int, v: int, w: int, f: float, t: str,
          a: Optional[int], b: Optional[int], lo: Optional[int], hi: Optional[int], d: Optional[int]) -> bool:
    arg = _arg(sel, v, w, f, t, symbolic_str=target in ("str", "bool", "dyn"))
    schema = _schema(target, a, b, lo, hi, d)
    key = "sub.p" if target in ("port", "portoff") else ("sub" if target == "sub" else ("newkey" if target == "dyn" else "x"))
    raised = None
    if route == "ctor":
        try:
            if target in ("port", "portoff"):
                cfg = schema(sub={"p": arg})
            elif target == "sub":
                cfg = schema(sub=arg)
            else:
                cfg = schema(**{key: arg})
        except Exception as exc:  # noqa: BLE001
            raised = exc
            cfg = schema()
        hold("base", _inv(target, cfg, a, b, lo, hi), "fresh configuration violates its own constraints")
    else:
        cfg = schema()
        hold("base", _inv(target, cfg, a, b, lo, hi), "fresh configuration violates its own constraints")
        before = _others(cfg)
        try:
            if route == "attr":
                if target in ("port", "portoff"):
                    cfg.sub.p = arg
                else:
                    cfg.__setattr__(key, arg)  # (builtin setattr() runs __setattr__ outside the tracer)
            elif route == "dotted":
                cfg[key] = arg
            elif route == "load_tree":
                tree = {"sub": {"p": arg}} if target in ("port", "portoff") else {key: arg}
                cfg.load_tree(tree)
            elif route == "submap":
                if target not in ("port", "ct", "sub", "portoff"):
                    skip("nested-map assignment needs a sub-configuration")
                if target == "ct":
                    cfg.x = {"v": arg}
                else:
                    cfg.sub = {"p": arg}
            elif route == "cmdline":
                if sel not in (2, 4, 10, 0):
                    skip("argparse yields strings / None")
                ns = argparse.Namespace()
                setattr(ns, key, arg)
                cmdline_args_override(cfg, ns)
            elif route == "reset":
                # accepted or rejected assignment first, then reset
                try:
                    cfg[key] = arg
                except ValidationError:
                    pass
                if target == "dyn":
                    skip("reset of a dynamic key: no declared default")
                reset_value(cfg, key)
                hold("reset", plain(cfg) == plain(schema()), "reset did not restore the declared default")
                if target == "lst":
                    try:
                        cfg.x.append(-5)          # in-place mutation of the restored value is still validated
                    except ValueError:
                        pass
                elif target == "dct":
                    try:
                        cfg.x["low"] = -5
                    except ValueError:
                        pass
        except Exception as exc:  # noqa: BLE001 - the exception type is C15's subject; here: the state afterwards
            raised = exc
        hold("others", _others(cfg) == before, "operation on %s changed a bystander field" % key)
    hold("inv", _inv(target, cfg, a, b, lo, hi),
         lambda: "after %s(%r) the configuration holds an invalid value: %r" % (route, arg, plain(cfg)))
    # every route must also agree with iteration / dotted read
    if target not in ("port", "sub", "dyn", "portoff"):
        hold("inv", cfg["x"] is cfg.x or cfg["x"] == cfg.x, "dotted read differs from attribute read")
    if raised is None and route in ("attr", "dotted", "ctor", "load_tree"):
        # read-back = oracle normal form, for argument shapes whose normal form is unambiguous
        if target == "int" and sel == 2:
            hold("readback", cfg.x == v and type(cfg.x) is int, "int read-back differs")
        if target == "str" and sel == 4:
            hold("readback", cfg.x == arg.lower(), "string read-back is not the normalised form")
        if target == "bool" and sel == 1:
            hold("readback", cfg.x is True, "bool read-back differs")
        if target == "lst" and sel == 6:
            hold("readback", list(cfg.x) == [v, w], "list read-back differs")
        if target == "lst" and sel == 11 and route != "load_tree":
            hold("readback", list(cfg.x) == [v, w], "list read-back differs (tuple)")
        if target == "dct" and sel == 7:
            hold("readback", dict(cfg.x) == {"K": v}, "dict read-back is not the normalised form")
        if target == "items" and sel == 9:
            hold("readback", [i.v for i in cfg.x] == [v, w], "items read-back differs")
        if target == "ct" and sel == 8:
            hold("readback", cfg.x.v == v, "config-type read-back differs")
        if target in ("port", "portoff") and sel == 2:
            hold("readback", cfg.sub.p == v, "port read-back differs")
        if target == "sub" and sel == 12:
            hold("readback", cfg.sub.p == v, "sub-config map read-back differs")
        if target == "dyn":
            hold("readback", cfg.newkey is arg or cfg.newkey == arg, "dynamic key read-back differs")
    return True


def _mk(target: str, route: str):
    sites = ["base", "inv"]
    if route == "reset":
        sites.append("reset")
    if route != "ctor":
        sites.append("others")

    meta = dict(prop="C01", name="route_%s_%s" % (route, target), group="route_%s" % route, sites=tuple(sites),
                encodes=ENC, budget={"quick": 150, "thorough": 400},
                what="one %s operation on a %s field with an argument of 15 shapes (None/bool/int/float/str/lists/"
                     "maps/tuple): invariant, bystanders unchanged, accepted read-back == normal form" % (route, target))

    def prune(sel, v, w, f, t):
        if f != 0.0:
            skip("float unused")
        if sel not in (4,) and t != "":
            skip("string unused")
        if sel not in (3, 4, 6, 9, 11) and w != 0:
            skip("second int unused")

        if sel in (0, 1, 3, 4, 10, 13, 14) and v != 0:
            skip("int unused")

    if target == "int":
        @obligation(**meta)
        def ob_int(sel: int, v: int, w: int, t: str,
                   a: Optional[int], b: Optional[int], d: Optional[int]) -> bool:
            """
            pre: 0 <= sel <= 14 and len(t) <= 2
            pre: (a is None or -50 <= a <= 50) and (b is None or -50 <= b <= 50)
            pre: d is None
            post: _
            """
            prune(sel, v, w, 0.0, t)
            # the declared default is valid by construction: the lower bound, else the upper bound, else None
            d = a if a is not None else b
            if a is not None and b is not None and a > b:
                skip("empty range: no valid default exists")
            return _step(target, route, sel, v, w, 0.0, t, a, b, None, None, d)
    elif target == "str":
        @obligation(**meta)
        def ob_str(sel: int, v: int, w: int, t: str, lo: Optional[int], hi: Optional[int]) -> bool:
            """
            pre: 0 <= sel <= 14 and len(t) <= 2
            pre: (lo is None or 0 <= lo <= 2) and (hi is None or 2 <= hi <= 3)
            post: _
            """
            prune(sel, v, w, 0.0, t)
            return _step(target, route, sel, v, w, 0.0, t, None, None, lo, hi, None)
    else:
        @obligation(**meta)
        def ob(sel: int, v: int, w: int, t: str) -> bool:
            """
            pre: 0 <= sel <= 14 and len(t) <= 2
            post: _
            """
            prune(sel, v, w, 0.0, t)
            return _step(target, route, sel, v, w, 0.0, t, None, None, None, None, None)


for _r in ROUTES:
    for _t in TARGETS:
        if _r == "submap" and _t not in ("port", "ct", "sub", "portoff"):
            continue
        if _r == "cmdline" and _t in ("items", "ct", "sub", "lst", "dct", "dyn"):
            continue
        if _r == "reset" and _t in ("dyn", "sub", "portoff"):
            continue
        if _t == "sub" and _r in ("dotted",):
            continue
        _mk(_t, _r)


# ----------------------------------------------------------------------------- in-place proxy mutation with bad items
LOPS = ("append", "insert", "extend", "setitem", "setslice", "iadd", "imul", "init_copy")
DOPS = ("setitem", "update_map", "update_pairs", "update_kw", "setdefault", "ior")


def _bad(sel: int, v: int):
    """a candidate item: valid or invalid by value or by type"""
    if sel == 0:
        return v
    if sel == 1:
        return None
    if sel == 2:
        return "x"
    if sel == 3:
        return True
    if sel == 4:
        return [v]
    if sel == 5:
        return 2.5
    skip("sel")


@obligation(prop="C01", sites=("inv", "accepted", "rejected"),
            encodes=["cincoconfig.fields.list_field.ListProxy._validate"], budget={"quick": 400, "thorough": 800},
            what="in-place mutation of a typed list value (8 mutators; iterables: list, tuple, iterator, generator, typed list of another field of the same / of another configuration) with candidate items of any "
                 "shape: afterwards every item satisfies IntField(min=0) or is None")
def list_mutation_keeps_valid(op_i: int, sel: int, v: int, sel2: int, w: int, idx: int, kind: int) -> bool:
    """
    pre: 0 <= op_i < 8 and 0 <= sel <= 5 and 0 <= sel2 <= 5 and -2 <= idx <= 2 and 0 <= kind <= 5
    post: _
    """
    schema = Schema()
    schema.x = ListField(IntField(min=0), default=lambda: [1, 2])
    schema.loose = ListField(IntField(), default=lambda: [])       # another typed list of the SAME configuration
    cfg = schema()
    op = LOPS[0]
    for i in range(len(LOPS)):
        if op_i == i:
            op = LOPS[i]
    x, y = _bad(sel, v), _bad(sel2, w)
    if op in ("append", "insert", "setitem") and (sel2 or w):
        skip("second item unused")
    if op not in ("insert", "setitem", "setslice") and idx:
        skip("idx unused")
    if op not in ("extend", "setslice", "iadd", "init_copy") and kind:
        skip("kind unused")
    items = [x, y]
    if kind in (4, 5):
        # a typed list value of another field (same configuration / another configuration) holding the items,
        # which are valid THERE but possibly not here
        other_cfg = cfg if kind == 4 else schema()
        try:
            other_cfg.loose = items
        except ValueError:
            skip("items not even valid for the unconstrained list")
        it = other_cfg.loose
    else:
        it = items if kind == 0 else (tuple(items) if kind == 1 else (iter(items) if kind == 2 else (i for i in items)))
    proxy = cfg.x
    try:
        if op == "append":
            proxy.append(x)
        elif op == "insert":
            proxy.insert(idx, x)
        elif op == "extend":
            proxy.extend(it)
        elif op == "setitem":
            proxy[idx] = x
        elif op == "setslice":
            proxy[idx:] = it
        elif op == "iadd":
            proxy += it
        elif op == "imul":
            proxy *= 2
        elif op == "init_copy":
            cfg.x = it if kind in (0, 1, 4, 5) else list(items)
        ok = True
    except (ValueError, IndexError):
        ok = False
    hold("accepted" if ok else "rejected", True)
    cur = cfg.x
    hold("inv", type(cur) is ListProxy, "typed list lost its type")
    for item in cur:
        hold("inv", item is None or (type(item) is int and item >= 0),
             lambda: "typed list holds an invalid item after %s: %r" % (op, list(cur)))
    return True


@obligation(prop="C01", sites=("inv", "accepted", "rejected"),
            encodes=["cincoconfig.fields.dict_field.DictProxy._validate"], budget={"quick": 200, "thorough": 500},
            what="in-place mutation of a typed dict value (6 mutators) with candidate keys/values of any shape, or "
                 "entries arriving from a sibling typed dict of the same field classes with looser options (update, "
                 "|=, assignment, dotted assignment, constructor keyword, copies): "
                 "afterwards every key is an upper-case str and every value satisfies IntField(min=0) or is None")
def dict_mutation_keeps_valid(op_i: int, ksel: int, sel: int, v: int, from_sibling: bool = False) -> bool:
    """
    pre: 0 <= op_i < 6 and 0 <= ksel <= 3 and 0 <= sel <= 5
    post: _
    """
    schema = Schema()
    schema.x = DictField(StringField(transform_case="upper"), IntField(min=0), default=lambda: {"A": 1})
    # a sibling typed dict of the same key / value field CLASSES with looser options
    schema.raw = DictField(StringField(), IntField(), default=lambda: {})
    cfg = schema()
    if from_sibling:
        return _dict_from_sibling(schema, cfg, op_i, ksel, sel, v)
    op = DOPS[0]
    for i in range(len(DOPS)):
        if op_i == i:
            op = DOPS[i]
    key = ("a", "Bb", 5, None)[0]
    for i, cand in enumerate(("a", "Bb", 5, None)):
        if ksel == i:
            key = cand
    if op == "update_kw" and not isinstance(key, str):
        skip("keyword keys are strings")
    val = _bad(sel, v)
    proxy = cfg.x
    try:
        if op == "setitem":
            proxy[key] = val
        elif op == "update_map":
            proxy.update({key: val})
        elif op == "update_pairs":
            proxy.update([(key, val)])
        elif op == "update_kw":
            proxy.update(**{key: val})
        elif op == "setdefault":
            proxy.setdefault(key, val)
        elif op == "ior":
            proxy |= {key: val}
        ok = True
    except ValueError:
        ok = False
    hold("accepted" if ok else "rejected", True)
    cur = cfg.x
    hold("inv", type(cur) is DictProxy, "typed dict lost its type")
    for k, item in cur.items():
        hold("inv", k is None or (type(k) is str and k == k.upper()),
             lambda: "typed dict holds an un-normalised key after %s: %r" % (op, dict(cur)))
        hold("inv", item is None or (type(item) is int and item >= 0),
             lambda: "typed dict holds an invalid value after %s: %r" % (op, dict(cur)))
    return True


def _dict_from_sibling(schema, cfg, op_i: int, ksel: int, sel: int, v: int) -> bool:
    """the entries come from ANOTHER typed dict value (a DictProxy of the looser sibling field), through update,
    |=, assignment or a constructor keyword: they are held to the target field's own constraints"""
    key = "a"
    for i, cand in enumerate(("a", "Bb", "CC", "d")):
        if ksel == i:
            key = cand
    val = v
    if sel == 0:
        val = -1 - (v if v >= 0 else 0)       # negative: forbidden by the target, fine for the sibling
    elif sel > 2:
        skip("value shapes: negative / symbolic int")
    try:
        cfg.raw = {key: val}
    except ValueError:
        skip("not acceptable to the sibling either")
    source = cfg.raw
    hold("accepted", type(source) is DictProxy, "sibling value is not typed")
    target_cfg = cfg
    try:
        if op_i == 0:
            cfg.x.update(source)
        elif op_i == 1:
            proxy = cfg.x
            proxy |= source
        elif op_i == 2:
            cfg.x = source
        elif op_i == 3:
            cfg["x"] = source
        elif op_i == 4:
            target_cfg = schema(x=source)
        else:
            cfg.x = cfg.x.copy()
            cfg.x.update(source.copy())
    except ValueError:
        hold("rejected", True)
    cur = target_cfg.x
    hold("inv", type(cur) is DictProxy, "typed dict lost its type")
    for k, item in cur.items():
        hold("inv", type(k) is str and k == k.upper(),
             lambda: "typed dict holds an un-normalised key copied from a sibling dict: %r" % (dict(cur),))
        hold("inv", item is None or (type(item) is int and item >= 0),
             lambda: "typed dict holds a value its field forbids, copied from a sibling dict: %r" % (dict(cur),))
    return True


@obligation(prop="C01", sites=("inv",), encodes=ENC, budget={"quick": 200, "thorough": 400},
            what="two fields of one class with different options in one configuration: a value accepted by the "
                 "permissive one is then offered to the strict one (and the other way round): afterwards each held "
                 "value satisfies ITS OWN field's constraints (IPv4Network prefix bounds symbolic, Int bounds "
                 "symbolic, String max length)")
def sibling_fields_of_one_class(which: int, p: int, lo: Optional[int], hi: Optional[int], strict_first: bool) -> bool:
    """
    pre: 0 <= which <= 2 and 0 <= p <= 32
    pre: (lo is None or 0 <= lo <= 32) and (hi is None or 0 <= hi <= 32)
    post: _
    """
    from cincoconfig import IPv4NetworkField
    schema = Schema()
    if which == 0:
        ptxt = None
        for cand in range(0, 33):
            if p == cand:
                ptxt = str(cand)
        value = "0.0.0.0/" + ptxt
        schema.loose = IPv4NetworkField()
        schema.strict = IPv4NetworkField(min_prefix_len=lo, max_prefix_len=hi)
        ok = (lo is None or p >= lo) and (hi is None or p <= hi)
    elif which == 1:
        value = p
        schema.loose = IntField()
        schema.strict = IntField(min=lo, max=hi)
        ok = (lo is None or p >= lo) and (hi is None or p <= hi)
    else:
        value = "x" * (p % 5)
        schema.loose = StringField()
        schema.strict = StringField(max_len=hi)
        ok = hi is None or (p % 5) <= hi
        if lo is not None:
            skip("unused")
    cfg = schema()
    for key in (("strict", "loose", "strict") if strict_first else ("loose", "strict")):
        try:
            cfg[key] = value
        except ValueError:
            pass
    hold("inv", cfg.loose == value, "permissive field did not take the value")
    hold("inv", (cfg.strict == value) if ok else (cfg.strict is None),
         lambda: "strict field holds %r although its own options %s it" % (cfg.strict, "allow" if ok else "exclude"))
    return True


# --------------------------------------------------------------------------- values that come from the environment
ENV_TEXTS = ("8443", "true", '"x"', "[1, 2]", "1,2", '{"a": 1}', "x", "-5", "[-5]", "null", "[]", " ")


@obligation(prop="C01", sites=("inv", "refused"), encodes=["cincoconfig.core.Field.__setdefault__"],
            budget={"quick": 120, "thorough": 300}, stubs=("FakeEnviron",),
            what="fields of every container / scalar kind bound to an environment variable whose text is drawn from "
                 "a menu (numbers, JSON scalars / arrays / maps, comma lists, blanks): after construction and after a "
                 "reset every readable value satisfies its field's constraints (type, bounds, item constraints) or "
                 "construction fails with a validation error; whether the variable is honoured is C14's subject")
def env_values_satisfy_constraints(kind: int, ti: int, then_reset: bool) -> bool:
    """
    pre: 0 <= kind <= 4 and 0 <= ti < 12
    post: _
    """
    from vf.hlib.stubs import fake_environ
    text = ENV_TEXTS[0]
    for i in range(len(ENV_TEXTS)):
        if ti == i:
            text = ENV_TEXTS[i]
    with fake_environ({"APP_X": text}):
        schema = Schema(env="APP")
        if kind == 0:
            schema.x = IntField(min=0, default=1)
        elif kind == 1:
            schema.x = StringField(max_len=3, default="d")
        elif kind == 2:
            schema.x = ListField(IntField(min=0), default=lambda: [1])
        elif kind == 3:
            schema.x = DictField(StringField(transform_case="upper"), IntField(min=0), default=lambda: {"A": 1})
        else:
            schema.x = BoolField(default=False)
        try:
            cfg = schema()
        except ValidationError:
            return hold("refused", True)
        if then_reset:
            try:
                reset_value(cfg, "x")
            except ValidationError:
                return hold("refused", True)
        x = cfg.x
        if kind == 0:
            good = x is None or (type(x) is int and x >= 0)
        elif kind == 1:
            good = x is None or (type(x) is str and len(x) <= 3)
        elif kind == 2:
            good = x is None or (type(x) is ListProxy and all(type(i) is int and i >= 0 for i in x))
        elif kind == 3:
            good = x is None or (type(x) is DictProxy and all(
                type(k) is str and k == k.upper() and type(i) is int and i >= 0 for k, i in x.items()))
        else:
            good = x is None or type(x) is bool
        hold("inv", good, lambda: "with APP_X=%r the field of kind %d holds %r" % (text, kind, x))
    return True


# --------------------------------------------------------------------------- declared defaults of any sequence kind
@obligation(prop="C01", sites=("inv",), encodes=["cincoconfig.fields.list_field.ListField.__setdefault__"],
            budget={"quick": 60, "thorough": 120},
            what="a typed list whose (valid) declared default is a list, a tuple, or a callable returning either, "
                 "with items in raw or normal form: the freshly built configuration holds a validating typed list "
                 "of normalised items, also after a reset, and never the declared default object itself")
def list_default_of_any_sequence_kind(kind: int, raw: bool, then_reset: bool, secret_items: bool) -> bool:
    """
    pre: 0 <= kind <= 3
    post: _
    """
    from cincoconfig import ChallengeField
    from cincoconfig.fields.secure_field import DigestValue
    items = ["1", 2] if raw else [1, 2]
    if secret_items:
        items = ["a", "b"]
    declared = [items, tuple(items), (lambda: list(items)), (lambda: tuple(items))][0]
    for i, cand in enumerate((items, tuple(items), (lambda: list(items)), (lambda: tuple(items)))):
        if kind == i:
            declared = cand
    schema = Schema()
    schema.x = ListField(ChallengeField("md5") if secret_items else IntField(min=0), default=declared)
    cfg = schema()
    if then_reset:
        reset_value(cfg, "x")
    x = cfg.x
    hold("inv", type(x) is ListProxy and x is not declared, lambda: "fresh value is %r, not a typed list" % (x,))
    if secret_items:
        hold("inv", all(type(i) is DigestValue for i in x), lambda: "plaintext items in a list of challenge fields: %r" % (list(x),))
    else:
        hold("inv", list(x) == [1, 2] and all(type(i) is int for i in x), lambda: "items not normalised: %r" % (list(x),))
        try:
            x.append(-1)
            hold("inv", False, "the default value accepts an invalid item")
        except ValueError:
            pass
    return True
