"""CrossHair engine adjustments (import AFTER crosshair.core_and_libs).

1. `%`-formatting without concretisation for the simple conversions the repo
   uses (%s %d %r %%): symbolic *strings* are concatenated exactly, symbolic
   *numbers* become the opaque token '<n>' (a cut: message text that embeds a
   numeric option is not modelled; nothing branches on it).  Anything else
   falls back to CrossHair's behaviour (realise the arguments).
2. Bit-vector XOR for byte-ranged symbolic ints.
3. Solver accounting (z3.Solver.check count + seconds).
4. Capture of the realised counter-example arguments (for replay).
"""
import operator
import re
import time
from numbers import Integral

import z3  # type: ignore
from crosshair import core  # type: ignore
from crosshair.core import deep_realize  # type: ignore
from crosshair.libimpl import builtinslib  # type: ignore
from crosshair.statespace import context_statespace  # type: ignore
from crosshair.tracers import NoTracing, ResumedTracing  # type: ignore

# ---------------------------------------------------------------- accounting
STATS = {"queries": 0, "solver_s": 0.0}
_orig_check = z3.Solver.check


def _counted_check(self, *a, **kw):
    t0 = time.perf_counter()
    try:
        return _orig_check(self, *a, **kw)
    finally:
        STATS["queries"] += 1
        STATS["solver_s"] += time.perf_counter() - t0


z3.Solver.check = _counted_check

# ---------------------------------------------------------------- capture
CAPTURED = []
_orig_mcm = core.make_counterexample_message


def _capturing_mcm(conditions, args, return_val=None):
    msg = _orig_mcm(conditions, args, return_val)
    try:
        with NoTracing():
            real = deep_realize(dict(args.arguments))
        CAPTURED.append(real)
    except Exception as exc:  # pragma: no cover - diagnostics only
        CAPTURED.append({"__capture_error__": repr(exc)})
    return msg


core.make_counterexample_message = _capturing_mcm

# ---------------------------------------------------------------- % format
_FMT = re.compile(r"%(?:(%)|([sdr])|(.))")
NUM_TOKEN = "<n>"


def _is_symbolic(x) -> bool:
    return type(x).__module__.startswith("crosshair")


def _any_symbolic(x, depth=0) -> bool:
    if _is_symbolic(x):
        return True
    if depth < 3 and isinstance(x, (tuple, list)):
        return any(_any_symbolic(i, depth + 1) for i in x)
    return False


def _fallback(self, other):
    real_self, real_other = deep_realize(self), deep_realize(other)
    with NoTracing():
        return str.__mod__(real_self, real_other)


def _fmt(self, other):
    if not isinstance(self, str):
        raise TypeError
    with NoTracing():
        plan = None
        if not _is_symbolic(self) and not isinstance(other, dict):
            args = other if type(other) is tuple else (other,)
            if any(_is_symbolic(a) for a in args):
                pieces, kinds, pos, ok = [], [], 0, True
                for m in _FMT.finditer(self):
                    lit = self[pos : m.start()]
                    pos = m.end()
                    if m.group(1):
                        pieces.append(lit + "%")
                        kinds.append(None)
                    elif m.group(2):
                        pieces.append(lit)
                        kinds.append(m.group(2))
                    else:
                        ok = False
                        break
                tail = self[pos:]
                nargs = sum(1 for k in kinds if k)
                if ok and nargs == len(args):
                    plan = (pieces, kinds, tail, args)
    if plan is None:
        return _fallback(self, other)
    pieces, kinds, tail, args = plan
    out = ""
    ai = 0
    for lit, kind in zip(pieces, kinds):
        out = out + lit
        if kind is None:
            continue
        a = args[ai]
        ai += 1
        with NoTracing():
            sym = _is_symbolic(a)
        if not sym:
            if kind == "s":
                out = out + str(a)
            elif kind == "r":
                out = out + repr(a)
            else:
                with NoTracing():
                    rendered = "%d" % a
                out = out + rendered
        elif isinstance(a, str) and kind == "s":
            out = out + a
        elif isinstance(a, (int, float)) and not isinstance(a, bool):
            out = out + NUM_TOKEN
        else:
            return _fallback(self, other)
    return out + tail


core._PATCH_REGISTRATIONS[str.__mod__] = _fmt

# ---------------------------------------------------------------- BV xor


def _xor_handler(op, a, b):
    with NoTracing():
        space = context_statespace()
        sa = a.var if hasattr(a, "var") else z3.IntVal(int(a))
        sb = b.var if hasattr(b, "var") else z3.IntVal(int(b))
        in_range = z3.And(0 <= sa, sa < 256, 0 <= sb, sb < 256)
    with NoTracing():
        both_bytes = space.smt_fork(in_range)
    if both_bytes:
        with NoTracing():
            bv = z3.Int2BV(sa, 8) ^ z3.Int2BV(sb, 8)
            return builtinslib.SymbolicInt(z3.BV2Int(bv, False))
    with NoTracing():
        ra, rb = deep_realize(a), deep_realize(b)
    return ra ^ rb


def _install_xor():
    order = builtinslib._BIN_OPS_SEARCH_ORDER
    order.append((operator.xor, Integral, Integral, _xor_handler))
    for key in [k for k in builtinslib._BIN_OPS if k[0] is operator.xor]:
        del builtinslib._BIN_OPS[key]


_install_xor()
