"""K-sym: sequences of z3 BitVec(8) terms standing in for bytes/bytearray so that the
repo's own byte-level loops can be re-executed from source (lengths concrete,
contents symbolic)."""
import inspect
import textwrap
import time

import z3  # type: ignore


def bv(x):
    if isinstance(x, int):
        return z3.BitVecVal(x, 8)
    return x


class SymSeq:
    """immutable bytes-like"""

    def __init__(self, items=()):
        if isinstance(items, (bytes, bytearray)):
            items = [bv(b) for b in items]
        elif isinstance(items, (SymSeq,)):
            items = list(items.items)
        elif isinstance(items, int):
            items = [bv(0)] * items
        self.items = [bv(i) for i in items]

    def __len__(self):
        return len(self.items)

    def __iter__(self):
        return iter(self.items)

    def __bool__(self):
        return len(self.items) > 0

    def __getitem__(self, i):
        if isinstance(i, slice):
            return SymSeq(self.items[i])
        return self.items[i]

    def __add__(self, other):
        if isinstance(other, (bytes, bytearray)):
            other = SymSeq(other)
        if not isinstance(other, SymSeq):
            return NotImplemented
        return SymSeq(self.items + other.items)

    def __radd__(self, other):
        if isinstance(other, (bytes, bytearray)):
            return SymSeq(other) + self
        return NotImplemented

    def encode(self):  # pragma: no cover - never a str
        raise AssertionError("SymSeq is bytes-like")

    def eq_term(self, other):
        """z3 term: element-wise equality (False if lengths differ)."""
        if len(self) != len(other):
            return z3.BoolVal(False)
        if not self.items:
            return z3.BoolVal(True)
        return z3.And([a == b for a, b in zip(self.items, other.items)])


class SymArr(SymSeq):
    """mutable bytearray-like"""

    def __setitem__(self, i, v):
        self.items[i] = bv(v)


def fresh(name, n):
    return SymSeq([z3.BitVec("%s_%d" % (name, i), 8) for i in range(n)])


def reexec_class(module, cls, **overrides):
    """Re-execute the *current source* of `cls` in a namespace where bytes/bytearray are
    the symbolic sequence classes.  Returns the new class object."""
    src = textwrap.dedent(inspect.getsource(cls))
    ns = dict(vars(module))
    ns.update(bytes=SymSeq, bytearray=SymArr)
    ns.update(overrides)
    exec(compile(src, inspect.getsourcefile(cls) or "<src>", "exec"), ns)
    return ns[cls.__name__], src


class Tally:
    def __init__(self):
        self.queries = 0
        self.solver_s = 0.0
        self.unsat = 0
        self.smt2 = []  # exported benchmarks (thorough: cvc5 cross-check)

    def check(self, solver, export=False):
        t0 = time.perf_counter()
        r = solver.check()
        self.solver_s += time.perf_counter() - t0
        self.queries += 1
        if str(r) == "unsat":
            self.unsat += 1
        if export:
            self.smt2.append(solver.to_smt2())
        return str(r)


def model_bytes(model, seq):
    out = bytearray()
    for t in seq:
        v = model.eval(t, model_completion=True)
        out.append(v.as_long())
    return bytes(out)
