"""K-fp: the bound-checking block of NumberField._validate, taken from the AST of the current source and
translated statement by statement into a z3 formula over Float64 (FloatField) or Int (IntField)."""
import ast
import inspect
import textwrap

import z3  # type: ignore


class Refused(Exception):
    pass


class Ctx:
    def __init__(self, kind: str):
        self.kind = kind
        if kind == "float":
            sort = z3.Float64()
            self.num = z3.FP("num", sort)
            self.min = z3.FP("min", sort)
            self.max = z3.FP("max", sort)
        else:
            self.num, self.min, self.max = z3.Int("num"), z3.Int("min"), z3.Int("max")
        self.has_min = z3.Bool("has_min")
        self.has_max = z3.Bool("has_max")

    # IEEE comparisons (NaN compares false) / integer comparisons
    def cmp(self, op, a, b):
        if self.kind == "float":
            table = {ast.Lt: z3.fpLT, ast.Gt: z3.fpGT, ast.LtE: z3.fpLEQ, ast.GtE: z3.fpGEQ,
                     ast.Eq: z3.fpEQ, ast.NotEq: lambda x, y: z3.Not(z3.fpEQ(x, y))}
        else:
            table = {ast.Lt: lambda x, y: x < y, ast.Gt: lambda x, y: x > y, ast.LtE: lambda x, y: x <= y,
                     ast.GtE: lambda x, y: x >= y, ast.Eq: lambda x, y: x == y, ast.NotEq: lambda x, y: x != y}
        if type(op) not in table:
            raise Refused("comparison %s" % type(op).__name__)
        return table[type(op)](a, b)

    def leq(self, a, b):
        return z3.fpLEQ(a, b) if self.kind == "float" else a <= b


def _operand(ctx: Ctx, node):
    if isinstance(node, ast.Name) and node.id == "num":
        return ("num", ctx.num)
    if isinstance(node, ast.Attribute) and isinstance(node.value, ast.Name) and node.value.id == "self":
        if node.attr == "min":
            return ("min", ctx.min)
        if node.attr == "max":
            return ("max", ctx.max)
    if isinstance(node, ast.Constant) and node.value is None:
        return ("none", None)
    raise Refused("operand %s" % ast.dump(node))


def _expr(ctx: Ctx, node):
    if isinstance(node, ast.BoolOp):
        parts = [_expr(ctx, v) for v in node.values]
        return z3.And(parts) if isinstance(node.op, ast.And) else z3.Or(parts)
    if isinstance(node, ast.UnaryOp) and isinstance(node.op, ast.Not):
        return z3.Not(_expr(ctx, node.operand))
    if isinstance(node, ast.Compare) and len(node.ops) == 1:
        (ka, a), (kb, b) = _operand(ctx, node.left), _operand(ctx, node.comparators[0])
        op = node.ops[0]
        if kb == "none" and ka in ("min", "max") and isinstance(op, (ast.Is, ast.IsNot)):
            flag = ctx.has_min if ka == "min" else ctx.has_max
            return flag if isinstance(op, ast.IsNot) else z3.Not(flag)
        if "none" in (ka, kb):
            raise Refused("comparison with None")
        return ctx.cmp(op, a, b)
    raise Refused("expression %s" % ast.dump(node))


def accepted_formula(func, kind: str):
    """-> (ctx, z3 formula 'the block returns num', source lines used)"""
    src = textwrap.dedent(inspect.getsource(func))
    fn = ast.parse(src).body[0]
    body = fn.body
    # everything after the statement that assigns `num` (the conversion try-block)
    start = None
    for i, st in enumerate(body):
        for sub in ast.walk(st):
            if isinstance(sub, ast.Assign) and any(isinstance(t, ast.Name) and t.id == "num" for t in sub.targets):
                start = i + 1
            if isinstance(sub, ast.AnnAssign) and isinstance(sub.target, ast.Name) and sub.target.id == "num":
                start = i + 1
    if start is None:
        raise Refused("conversion statement not found")
    ctx = Ctx(kind)
    tests = []
    used = []
    for st in body[start:]:
        if isinstance(st, ast.If) and len(st.body) == 1 and isinstance(st.body[0], ast.Raise) and not st.orelse:
            tests.append(_expr(ctx, st.test))
            used.append(ast.get_source_segment(src, st.test))
        elif isinstance(st, ast.Return) and isinstance(st.value, ast.Name) and st.value.id == "num":
            break
        elif isinstance(st, ast.Expr) and isinstance(st.value, ast.Constant):
            continue  # comment-like string
        else:
            raise Refused("statement %s" % ast.dump(st)[:200])
    else:
        raise Refused("no `return num`")
    accepted = z3.And([z3.Not(t) for t in tests]) if tests else z3.BoolVal(True)
    return ctx, accepted, used


def in_bounds(ctx: Ctx):
    return z3.And(z3.Implies(ctx.has_min, ctx.leq(ctx.min, ctx.num)), z3.Implies(ctx.has_max, ctx.leq(ctx.num, ctx.max)))
