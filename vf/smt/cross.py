"""Second-opinion solving of exported SMT-LIB2 benchmarks with the cvc5 binary (thorough tier)."""
import os
import subprocess
import tempfile


def cvc5_check(smt2: str, timeout_s: int = 120, extra=()) -> str:
    """returns 'sat' | 'unsat' | 'unknown' | 'error:<text>'"""
    fd, path = tempfile.mkstemp(suffix=".smt2", prefix="vf_")
    try:
        with os.fdopen(fd, "w") as fp:
            fp.write(smt2)
            if "(check-sat)" not in smt2:
                fp.write("\n(check-sat)\n")
        try:
            p = subprocess.run(["cvc5", "--lang", "smt2", "--tlimit", str(timeout_s * 1000), *extra, path],
                               capture_output=True, text=True, timeout=timeout_s + 30)
        except subprocess.TimeoutExpired:
            return "unknown"
        out = (p.stdout + p.stderr).strip()
        if "(error" in out:
            return "error:" + out[:300]
        for line in out.splitlines():
            if line.strip() in ("sat", "unsat", "unknown"):
                return line.strip()
        return "error:" + out[:300]
    finally:
        try:
            os.remove(path)
        except OSError:
            pass


def cross_check(smt2_list, expected: str, timeout_s: int = 120, extra=()):
    """-> (n_checked, disagreements[list of str])"""
    bad = []
    for i, s in enumerate(smt2_list):
        r = cvc5_check(s, timeout_s, extra)
        if r != expected:
            bad.append("query %d: z3=%s cvc5=%s" % (i, expected, r))
    return len(smt2_list), bad
