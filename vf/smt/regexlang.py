"""K-regex: CPython regular expressions (as parsed by re._parser) -> z3 regular expressions with Python's
matching semantics for `re.match` (anchored at the start only; `$` = end or just before a final newline;
`.` excludes newline).  Alphabet: code points U+0000..U+007F (stated bound); \\w \\d \\s are their ASCII parts.

Unsupported constructs raise Unsupported (the obligation becomes inconclusive, never a pass).
"""
import re
import re._constants as C  # type: ignore
import re._parser as P  # type: ignore

import z3  # type: ignore

MAXCP = 0x7F


class Unsupported(Exception):
    pass


def _ch(cp: int):
    return z3.Re(z3.StringVal(chr(cp)))


def any_char():
    return z3.Range(chr(0), chr(MAXCP))


def _ranges_to_re(cps):
    """set of code points -> z3 regex (union of ranges)"""
    cps = sorted(c for c in cps if 0 <= c <= MAXCP)
    if not cps:
        return z3.Empty(z3.ReSort(z3.StringSort()))
    parts, start, prev = [], cps[0], cps[0]
    for c in cps[1:]:
        if c == prev + 1:
            prev = c
            continue
        parts.append(z3.Range(chr(start), chr(prev)))
        start = prev = c
    parts.append(z3.Range(chr(start), chr(prev)))
    return parts[0] if len(parts) == 1 else z3.Union(*parts)


def _category(cat):
    allc = range(0, MAXCP + 1)
    tests = {
        C.CATEGORY_DIGIT: lambda c: chr(c).isdigit(),
        C.CATEGORY_NOT_DIGIT: lambda c: not chr(c).isdigit(),
        C.CATEGORY_SPACE: lambda c: chr(c).isspace(),
        C.CATEGORY_NOT_SPACE: lambda c: not chr(c).isspace(),
        C.CATEGORY_WORD: lambda c: chr(c).isalnum() or chr(c) == "_",
        C.CATEGORY_NOT_WORD: lambda c: not (chr(c).isalnum() or chr(c) == "_"),
    }
    if cat not in tests:
        raise Unsupported("category %r" % (cat,))
    return {c for c in allc if tests[cat](c)}


def _class_set(items):
    negate = False
    cps = set()
    for op, av in items:
        if op is C.NEGATE:
            negate = True
        elif op is C.LITERAL:
            cps.add(av)
        elif op is C.RANGE:
            cps.update(range(av[0], av[1] + 1))
        elif op is C.CATEGORY:
            cps.update(_category(av))
        else:
            raise Unsupported("class item %r" % (op,))
    if negate:
        cps = set(range(0, MAXCP + 1)) - cps
    return cps


def _seq(parts):
    parts = [p for p in parts if p is not None]
    if not parts:
        return z3.Re(z3.StringVal(""))
    return parts[0] if len(parts) == 1 else z3.Concat(*parts)


def _translate(items, top: bool, flags: int):
    """-> (z3 regex, ends_with_dollar)"""
    out = []
    n = len(items)
    dollar = False
    for idx, (op, av) in enumerate(items):
        if op is C.LITERAL:
            if flags & re.IGNORECASE:
                raise Unsupported("IGNORECASE")
            out.append(_ch(av) if av <= MAXCP else z3.Empty(z3.ReSort(z3.StringSort())))
        elif op is C.NOT_LITERAL:
            out.append(_ranges_to_re(set(range(0, MAXCP + 1)) - {av}))
        elif op is C.IN:
            out.append(_ranges_to_re(_class_set(av)))
        elif op is C.ANY:
            if flags & re.DOTALL:
                out.append(any_char())
            else:
                out.append(_ranges_to_re(set(range(0, MAXCP + 1)) - {10}))
        elif op in (C.MAX_REPEAT, C.MIN_REPEAT):
            lo, hi, sub = av
            inner, d = _translate(list(sub), False, flags)
            if d:
                raise Unsupported("$ inside a repeat")
            if hi is C.MAXREPEAT:
                if lo == 0:
                    out.append(z3.Star(inner))
                elif lo == 1:
                    out.append(z3.Plus(inner))
                else:
                    out.append(z3.Concat(z3.Loop(inner, lo, lo), z3.Star(inner)))
            else:
                out.append(z3.Loop(inner, lo, hi))
        elif op is C.SUBPATTERN:
            inner, d = _translate(list(av[3]), False, flags)
            if d:
                raise Unsupported("$ inside a group")
            out.append(inner)
        elif op is C.BRANCH:
            alts = []
            for alt in av[1]:
                inner, d = _translate(list(alt), False, flags)
                if d:
                    raise Unsupported("$ inside an alternative")
                alts.append(inner)
            out.append(z3.Union(*alts) if len(alts) > 1 else alts[0])
        elif op is C.AT:
            if av is C.AT_BEGINNING or av is C.AT_BEGINNING_STRING:
                if not (top and idx == 0):
                    raise Unsupported("^ not at the start")
                if flags & re.MULTILINE:
                    raise Unsupported("MULTILINE")
            elif av is C.AT_END:
                if not (top and idx == n - 1):
                    raise Unsupported("$ not at the end")
                if flags & re.MULTILINE:
                    raise Unsupported("MULTILINE")
                dollar = True
            elif av is C.AT_END_STRING:
                if not (top and idx == n - 1):
                    raise Unsupported("\\Z not at the end")
                dollar = "Z"
            else:
                raise Unsupported("anchor %r" % (av,))
        else:
            raise Unsupported("regex construct %r" % (op,))
    return _seq(out), dollar


def match_language(pattern: str, flags: int = 0):
    """z3 regex of all strings s (over the alphabet) with re.match(pattern, s) is not None."""
    parsed = P.parse(pattern, flags)
    body, dollar = _translate(list(parsed), True, parsed.state.flags)
    if dollar is True:  # `$`: at the end, or just before a newline at the end
        return z3.Concat(body, z3.Option(_ch(10)))
    if dollar == "Z":
        return body
    return z3.Concat(body, z3.Star(any_char()))  # re.match is a prefix match


def fullmatch_language(pattern: str, flags: int = 0):
    """z3 regex of the strings the pattern *describes* (whole-string match, no newline leniency)."""
    parsed = P.parse(pattern, flags)
    items = list(parsed)
    # strip a leading ^ and trailing $ / \Z : the description is the body
    if items and items[0][0] is C.AT and items[0][1] in (C.AT_BEGINNING, C.AT_BEGINNING_STRING):
        items = items[1:]
    if items and items[-1][0] is C.AT and items[-1][1] in (C.AT_END, C.AT_END_STRING):
        items = items[:-1]
    body, dollar = _translate(items, False, parsed.state.flags)
    return body


def model_string(model, var) -> str:
    v = model.eval(var, model_completion=True)
    s = v.as_string()
    # z3 escapes non-printables as \u{..}
    return re.sub(r"\\u\{([0-9a-fA-F]+)\}", lambda m: chr(int(m.group(1), 16)), s)
