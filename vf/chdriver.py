"""Worker: run ONE obligation in one mode and print one JSON line.

usage: python -m vf.chdriver <module> <obligation> <budget_s>
       (mode/regions come from VF_MODE / VF_EXCLUDE / VF_ONLY, see vf.hlib)
"""
import base64
import collections
import importlib
import json
import os
import pickle
import sys
import time
import traceback


def _emit(d):
    sys.stdout.write("\n@@RESULT@@" + json.dumps(d) + "\n")
    sys.stdout.flush()


def run_ch(ob, budget: float) -> dict:
    from crosshair.core_and_libs import analyze_function  # noqa: F401  (loads plugins)
    from vf import chplugin  # after core_and_libs
    from crosshair.core import analyze_calltree
    from crosshair.options import AnalysisOptionSet, DEFAULT_OPTIONS, AnalysisKind
    from crosshair.condition_parser import condition_parser, get_current_parser
    from crosshair.fnutil import FunctionInfo

    from crosshair import core as _core
    from crosshair.statespace import VerificationStatus
    from vf import hlib

    _orig_attempt = _core.attempt_call

    def _attempt(*a, **kw):
        del hlib.PATH_SITES[:]
        res = _orig_attempt(*a, **kw)
        if res.verification_status == VerificationStatus.CONFIRMED:
            for s in set(hlib.PATH_SITES):
                hlib.REACHED[s] = hlib.REACHED.get(s, 0) + 1
        return res

    _core.attempt_call = _attempt
    seed = int(os.environ.get("VERIF_SEED", "0") or 0)
    if seed:
        import random

        random.seed(seed)
    opts = DEFAULT_OPTIONS.overlay(
        AnalysisOptionSet(
            per_condition_timeout=budget,
            per_path_timeout=max(10.0, budget / 3),
            max_uninteresting_iterations=sys.maxsize - 1,
            analysis_kind=[AnalysisKind.PEP316],
            stats=collections.Counter(),
        )
    )
    t0 = time.process_time()
    w0 = time.perf_counter()
    with condition_parser(opts.analysis_kind):
        conds = get_current_parser().get_fn_conditions(FunctionInfo.from_fn(ob.fn))
        if conds is None or not conds.has_any():
            return {"status": "error", "error": "no contract parsed"}
        errs = list(conds.syntax_messages())
        if errs:
            return {"status": "error", "error": "contract syntax: %r" % (errs,)}
        opts.deadline = time.process_time() + budget
        res = analyze_calltree(opts, conds)
    status = res.verification_status.name  # CONFIRMED / REFUTED / UNKNOWN
    msgs = [{"state": m.state.name, "message": m.message, "traceback": (m.traceback or "")[-2500:]} for m in res.messages]
    out = {
        "paths": int(opts.stats["num_paths"]) if opts.stats else 0,
        "confirmed_paths": res.num_confirmed_paths,
        "queries": chplugin.STATS["queries"],
        "solver_s": round(chplugin.STATS["solver_s"], 4),
        "cpu_s": round(time.process_time() - t0, 3),
        "wall_s": round(time.perf_counter() - w0, 3),
        "messages": msgs,
        "reached": dict(hlib.REACHED),
    }
    states = {m["state"] for m in msgs}
    if "PRE_UNSAT" in states:
        out["status"] = "precondition"
    elif status == "REFUTED":
        out["status"] = "refuted"
        if chplugin.CAPTURED:
            args = chplugin.CAPTURED[-1]
            try:
                out["args_b64"] = base64.b64encode(pickle.dumps(args)).decode()
            except Exception as exc:
                out["args_error"] = repr(exc)
            out["args_repr"] = {k: repr(v) for k, v in args.items()}
        if any("NotDeterministic" in m["message"] for m in msgs):
            out["status"] = "error"
            out["error"] = "NotDeterministic"
    elif status == "CONFIRMED":
        out["status"] = "confirmed"
    else:
        out["status"] = "unknown"
    return out


def main(argv):
    modname, obname, budget = argv[0], argv[1], float(argv[2])
    try:
        importlib.import_module(modname)
        from vf.hlib import REGISTRY

        ob = REGISTRY[obname]
        if ob.engine == "ch":
            out = run_ch(ob, budget)
        else:  # direct SMT engine: the function does its own solving
            t0 = time.perf_counter()
            out = ob.fn(os.environ.get("VERIF_TIER", "quick"), budget)
            out.setdefault("wall_s", round(time.perf_counter() - t0, 3))
    except BaseException as exc:  # noqa: BLE001 - report, never hang the pool
        out = {"status": "error", "error": "%s: %s" % (type(exc).__name__, exc),
               "traceback": traceback.format_exc()[-3000:]}
    out["obligation"] = obname
    out["mode"] = os.environ.get("VF_MODE", "")
    out["only"] = os.environ.get("VF_ONLY", "")
    out["exclude"] = os.environ.get("VF_EXCLUDE", "")
    _emit(out)


if __name__ == "__main__":
    main(sys.argv[1:])
