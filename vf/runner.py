"""Obligation pool, verdict table (DESIGN §3), known findings, evidence writer.

./check <ID> [--tier quick|thorough] [--ob NAME ...] [--replay PATH] | --setup | --list
exit 0 held on everything explored / 1 VIOLATION printed / 2 inconclusive or engine error
"""
import argparse
import base64
import pickle
import concurrent.futures as cf
import glob
import hashlib
import importlib
import json
import os
import subprocess
import sys
import threading
import time

ROOT = os.path.dirname(os.path.dirname(os.path.abspath(__file__)))
sys.path.insert(0, ROOT)
from vf import bootstrap  # noqa: E402

BASE_PY = "/venv/bin/python"
NCPU = min(16, os.cpu_count() or 4)
FINDINGS_FILE = os.path.join(ROOT, "known_findings.json")
# evidence/ and replays/ normally live in /verif; seeded-change runs redirect them (they are not evidence)
OUT = os.environ.get("VF_OUT_DIR") or ROOT


# --------------------------------------------------------------------------- jobs
def _env(**extra):
    env = dict(os.environ)
    env.update(
        PYTHONHASHSEED="0",
        PYTHONDONTWRITEBYTECODE="1",
        # VF_REPO: analyse another checkout of the repository (seeded-change runs) instead of /repo
        PYTHONPATH=(os.environ["VF_REPO"] + os.pathsep + ROOT) if os.environ.get("VF_REPO") else ROOT,
        HOME="/nonexistent-home-vf",  # never touch the real ~/.cincokey
    )
    for k in ("VF_MODE", "VF_EXCLUDE", "VF_ONLY", "VF_REPLAY"):
        env.pop(k, None)
    env.update({k: v for k, v in extra.items() if v})
    return env


def _parse(stdout: str, tag: str):
    for line in reversed(stdout.splitlines()):
        if line.startswith(tag):
            return json.loads(line[len(tag):])
    return None


_SLOTS = threading.BoundedSemaphore(NCPU)


def run_worker(py, module, obname, budget, tier, mode="", exclude=(), only=""):
    with _SLOTS:
        return _run_worker(py, module, obname, budget, tier, mode, exclude, only)


def _run_worker(py, module, obname, budget, tier, mode="", exclude=(), only=""):
    env = _env(VF_MODE=mode, VF_EXCLUDE=",".join(exclude), VF_ONLY=only, VERIF_TIER=tier)
    t0 = time.perf_counter()
    try:
        p = subprocess.run(
            [py, "-m", "vf.chdriver", module, obname, str(budget)],
            cwd=ROOT, env=env, capture_output=True, text=True,
            timeout=budget * 2 + 120,
        )
        res = _parse(p.stdout, "@@RESULT@@")
        if res is None:
            res = {"status": "error", "error": "worker produced no result (rc=%s): %s"
                   % (p.returncode, (p.stderr or "")[-1500:])}
    except subprocess.TimeoutExpired:
        res = {"status": "error", "error": "worker wall-clock timeout"}
    res.setdefault("obligation", obname)
    res["job_wall_s"] = round(time.perf_counter() - t0, 2)
    return res


def run_replay(path, trace=False):
    env = _env(VF_REPLAY="1")
    cmd = [BASE_PY, "-m", "vf.replay", path] + (["--trace"] if trace else [])
    try:
        p = subprocess.run(cmd, cwd=ROOT, env=env, capture_output=True, text=True, timeout=300)
    except subprocess.TimeoutExpired:
        return {"outcome": "error", "detail": "replay timeout"}
    res = _parse(p.stdout, "@@REPLAY@@")
    if res is None:
        res = {"outcome": "error", "detail": (p.stderr or p.stdout)[-1500:]}
    return res


def write_replay(prop, module, ob, res, kind):
    d = os.path.join(OUT, "replays", prop)
    os.makedirs(d, exist_ok=True)
    h = hashlib.sha1((res.get("args_b64", "") + ob.name).encode()).hexdigest()[:10]
    path = os.path.join(d, "%s-%s-%s.json" % (ob.name, kind, h))
    rec = {
        "property": prop, "module": module, "obligation": ob.name, "kind": kind,
        "args_b64": res.get("args_b64"), "args_repr": res.get("args_repr"),
        "engine_message": [m["message"] for m in res.get("messages", [])][:3],
        "how": "./check %s --replay %s" % (prop, os.path.relpath(path, ROOT)),
    }
    with open(path, "w") as fp:
        json.dump(rec, fp, indent=1, sort_keys=True)
    return path


# --------------------------------------------------------------------------- findings
def load_findings(prop):
    if not os.path.exists(FINDINGS_FILE):
        return []
    with open(FINDINGS_FILE) as fp:
        data = json.load(fp)
    return [f for f in data.get("findings", []) if f.get("property") == prop]


# --------------------------------------------------------------------------- per obligation
def process_obligation(py, prop, module, ob, tier, findings, log):
    """Returns a record with verdict and measurements."""
    budget = float(ob.budget.get(tier, 30))
    listed = [f["region"] for f in findings if f["obligation"] == ob.name]
    for r in listed:
        if r not in ob.regions:
            return {"name": ob.name, "verdict": "inconclusive",
                    "why": "known_findings.json lists undeclared region %r" % r}
    rec = {"name": ob.name, "engine": ob.engine, "module": module, "bounds": ob.bounds,
           "encodes": list(ob.encodes), "stubs": list(ob.stubs), "budget_s": budget,
           "known_regions": listed, "lines": [], "samples": [], "jobs": []}

    with cf.ThreadPoolExecutor(max_workers=1 + len(ob.sites) + len(listed)) as tp:
        f_main = tp.submit(run_worker, py, module, ob.name, budget, tier, "", listed, "")
        f_twins = {}
        if ob.engine == "ch" and ob.twins:
            for s in ob.sites:
                f_twins[s] = tp.submit(run_worker, py, module, ob.name, max(30.0, budget / 2), tier,
                                       "twin:" + s, listed, "")
        f_regions = {
            r: tp.submit(run_worker, py, module, ob.name, max(30.0, budget / 2), tier, "",
                         [x for x in listed if x != r], r)
            for r in listed
        }
        main = f_main.result()
        twins = {s: f.result() for s, f in f_twins.items()}
        regions = {r: f.result() for r, f in f_regions.items()}

    for j in [main] + list(twins.values()) + list(regions.values()):
        rec["jobs"].append({k: j.get(k) for k in ("mode", "only", "status", "paths", "confirmed_paths",
                                                  "queries", "solver_s", "cpu_s", "job_wall_s", "error")})
    rec["paths"] = sum(int(j.get("paths") or 0) for j in [main] + list(twins.values()) + list(regions.values()))
    rec["confirmed_paths"] = int(main.get("confirmed_paths") or 0)
    rec["cpu_s"] = main.get("cpu_s")
    rec["queries"] = sum(int(j.get("queries") or 0) for j in [main] + list(twins.values()) + list(regions.values()))
    rec["solver_s"] = round(sum(float(j.get("solver_s") or 0) for j in [main] + list(twins.values()) + list(regions.values())), 3)
    for k in ("smt", "extra"):
        if k in main:
            rec[k] = main[k]

    # --- main verdict
    st = main.get("status")
    if st == "confirmed":
        rec["verdict"] = "discharged"
    elif st == "refuted":
        path = write_replay(prop, module, ob, main, "cex")
        rp = run_replay(path) if main.get("args_b64") else {"outcome": "error", "detail": main.get("args_error", "no args captured")}
        rec["replay"] = rp
        if rp.get("outcome") == "reproduced":
            rec["verdict"] = "violated"
            rec["replay_path"] = path
            rec["samples"].append({"counterexample": main.get("args_repr"), "replay": rp.get("detail")})
        else:
            rec["verdict"] = "engine-error"
            rec["why"] = "counter-example %s did not reproduce in plain Python: %s" % (
                main.get("args_repr"), rp.get("detail"))
            try:
                os.remove(path)
            except OSError:
                pass
    elif st == "unknown":
        if rec["confirmed_paths"] > 0:
            rec["verdict"] = "bounded-inconclusive"
        else:
            rec["verdict"] = "inconclusive"
            rec["why"] = "budget ended with no confirmed path"
    elif st == "precondition":
        rec["verdict"] = "inconclusive"
        rec["why"] = "unable to meet precondition: %s" % main.get("messages")
    else:
        rec["verdict"] = "inconclusive"
        rec["why"] = "worker: %s" % (main.get("error") or main.get("messages"))
        if main.get("traceback"):
            rec["why"] += "\n" + main["traceback"]

    # --- vacuity guard: sites reached on confirmed paths of the main run or by a refuted twin
    #     (coverage of the declared sites is judged per group in main())
    rec["group"] = ob.group
    rec["sites_required"] = list(ob.sites)
    rec["reached"] = dict(main.get("reached") or {})
    entered = set()
    for s, tw in twins.items():
        if tw.get("status") != "refuted":
            continue
        rec["reached"][s] = rec["reached"].get(s, 0) + 1
        if tw.get("args_b64"):
            p = write_replay(prop, module, ob, tw, "witness-" + s)
            rp = run_replay(p, trace=True)
            rec["samples"].append({"site": s, "witness": tw.get("args_repr"), "plain_python": rp.get("outcome")})
            entered.update(rp.get("entered") or [])
            os.remove(p)
            if rp.get("outcome") == "reproduced" and rec["verdict"] in ("discharged", "bounded-inconclusive"):
                # the witness is a normal-mode failure the main run did not see
                rec["verdict"] = "inconclusive"
                rec["why"] = "twin witness %s fails in plain Python (%s) but the engine confirmed" % (
                    tw.get("args_repr"), rp.get("detail"))
    for n_ex, ex in enumerate(ob.examples):
        fake = {"args_b64": base64.b64encode(pickle.dumps(dict(ex))).decode(),
                "args_repr": {k: repr(v) for k, v in ex.items()}, "messages": []}
        p = write_replay(prop, module, ob, fake, "example%d" % n_ex)
        rp = run_replay(p, trace=True)
        entered.update(rp.get("entered") or [])
        if rp.get("outcome") == "reproduced" and rec["verdict"] != "violated":
            rec["verdict"] = "violated"
            rec["replay_path"] = p
            rec["samples"].insert(0, {"counterexample": fake["args_repr"], "replay": rp.get("detail")})
        else:
            os.remove(p)
            if rp.get("outcome") == "error" and rec["verdict"] in ("discharged", "bounded-inconclusive"):
                rec["verdict"] = "inconclusive"
                rec["why"] = "example %r failed to run: %s" % (ex, rp.get("detail"))
    if ob.engine == "ch":
        rec["entered"] = sorted(entered)
        if rec["verdict"] == "discharged" and rec["confirmed_paths"] == 0:
            rec["verdict"] = "inconclusive"
            rec["why"] = "vacuous: no confirmed path"

    # --- known-finding regions
    for r, rr in regions.items():
        what = next(f["what"] for f in findings if f["obligation"] == ob.name and f["region"] == r)
        if rr.get("status") == "refuted" and rr.get("args_b64"):
            p = write_replay(prop, module, ob, rr, "known-" + r)
            rp = run_replay(p)
            if rp.get("outcome") == "reproduced":
                rec["lines"].append("KNOWN-FINDING: property=%s %s [obligation=%s region=%s input=%s]" % (
                    prop, what, ob.name, r, json.dumps(rr.get("args_repr"), sort_keys=True)))
                rec["samples"].append({"known_finding": r, "input": rr.get("args_repr")})
            else:
                os.remove(p)
                rec["lines"].append("NOTE: known finding %s/%s: engine counter-example did not reproduce (%s)" % (
                    ob.name, r, rp.get("detail")))
        elif rr.get("status") == "confirmed":
            rec["lines"].append("NOTE: known finding %s/%s no longer reproduces (region now confirmed)" % (ob.name, r))
        else:
            rec["lines"].append("NOTE: known finding %s/%s undecided in this run (%s)" % (
                ob.name, r, rr.get("status")))
    return rec


# --------------------------------------------------------------------------- main
def discover(prop):
    mods = []
    for p in sorted(glob.glob(os.path.join(ROOT, "harness", prop + "_*.py"))):
        mods.append("harness." + os.path.basename(p)[:-3])
    return mods


def main(argv=None):
    ap = argparse.ArgumentParser()
    ap.add_argument("prop", nargs="?")
    ap.add_argument("--tier", default=os.environ.get("VERIF_TIER") or "quick", choices=["quick", "thorough"])
    ap.add_argument("--ob", action="append", default=[])
    ap.add_argument("--replay")
    ap.add_argument("--setup", action="store_true")
    ap.add_argument("--list", action="store_true")
    ap.add_argument("-v", action="store_true")
    a = ap.parse_args(argv)
    t_start = time.perf_counter()
    py = bootstrap.ensure(verbose=a.setup)
    if a.setup:
        print("setup ok:", py)
        return 0
    if not a.prop:
        ap.error("property id required")
    prop = a.prop
    try:
        seed = int(os.environ.get("VERIF_SEED", "0") or 0)
    except ValueError:
        seed = 0

    if a.replay:
        rp = run_replay(os.path.join(ROOT, a.replay) if not os.path.isabs(a.replay) else a.replay)
        print(json.dumps(rp, indent=1))
        if rp.get("outcome") == "reproduced":
            print("VIOLATION property=%s replay=%s" % (prop, a.replay))
            return 1
        return 0 if rp.get("outcome") in ("held", "skipped") else 2

    # registry is read in a clean child (harness modules import the repo)
    mods = discover(prop)
    if not mods:
        print("no harness for", prop)
        return 2
    listing = subprocess.run(
        [py, "-c",
         "import importlib,json,sys\n"
         "from vf.hlib import REGISTRY\n"
         "out=[]\n"
         "for m in sys.argv[1:]:\n"
         "    before=set(REGISTRY)\n"
         "    importlib.import_module(m)\n"
         "    out += [(m,n) for n in REGISTRY if n not in before]\n"
         "print('@@L@@'+json.dumps(out))\n"] + mods,
        cwd=ROOT, env=_env(VERIF_TIER=a.tier), capture_output=True, text=True)
    pairs = _parse(listing.stdout, "@@L@@")
    if pairs is None:
        print("harness import failed:\n" + listing.stderr[-3000:])
        return 2
    # import registry here too (metadata only)
    os.environ["VERIF_TIER"] = a.tier
    for m in mods:
        importlib.import_module(m)
    from vf.hlib import REGISTRY

    todo = []
    todo_all = []
    for m, n in pairs:
        ob = REGISTRY[n]
        if ob.prop != prop:
            continue
        if a.tier not in ob.tiers:
            continue
        todo_all.append((m, ob))
        if a.ob and n not in a.ob:
            continue
        todo.append((m, ob))
    if a.list:
        for m, ob in todo:
            print(m, ob.name, ob.engine, ob.sites, ob.budget)
        return 0
    if not todo:
        print("no obligations selected")
        return 2

    findings = load_findings(prop)
    # replays of earlier runs are stale: rewritten by this run
    for p in glob.glob(os.path.join(OUT, "replays", prop, "*.json")):
        if not a.ob or any(os.path.basename(p).startswith(n + "-") for n in a.ob):
            os.remove(p)

    # each obligation uses up to 1+sites+regions processes; keep ~NCPU busy
    width = NCPU
    recs = []
    with cf.ThreadPoolExecutor(max_workers=width) as pool:
        futs = {pool.submit(process_obligation, py, prop, m, ob, a.tier, findings, None): ob for m, ob in todo}
        for f in cf.as_completed(futs):
            ob = futs[f]
            try:
                rec = f.result()
            except Exception as exc:  # noqa: BLE001
                rec = {"name": ob.name, "verdict": "inconclusive", "why": "runner: %r" % exc,
                       "lines": [], "samples": []}
            recs.append(rec)
            print("[%s] %-40s %-20s paths=%s confirmed=%s queries=%s solver=%ss" % (
                prop, rec["name"], rec["verdict"], rec.get("paths"), rec.get("confirmed_paths"),
                rec.get("queries"), rec.get("solver_s")), flush=True)
            if rec.get("why") and rec["verdict"] not in ("discharged",):
                print("      " + str(rec["why"]).replace("\n", "\n      "), flush=True)
    recs.sort(key=lambda r: r["name"])

    # --- group-level vacuity / encoding checks
    groups = {}
    for r in recs:
        groups.setdefault(r.get("group", r["name"]), []).append(r)
    for g, rs in groups.items():
        if any(r.get("engine") != "ch" for r in rs):
            continue
        need = sorted({s for r in rs for s in r.get("sites_required", [])})
        got = {s for r in rs for s in (r.get("reached") or {})}
        entered = {e for r in rs for e in r.get("entered", [])}
        enc = sorted({e for r in rs for e in r.get("encodes", [])})
        missing = [s for s in need if s not in got]
        unenc = [e for e in enc if e not in entered] if entered else []
        complete = not a.ob or len(rs) == sum(1 for _, ob in todo_all if ob.group == g)
        for r in rs:
            if r["verdict"] not in ("discharged", "bounded-inconclusive"):
                continue
            if missing and complete:
                r["verdict"] = "inconclusive"
                r["why"] = "assertion sites never reached on a confirmed path (vacuity guard): %s" % missing
            elif unenc:
                r["verdict"] = "inconclusive"
                r["why"] = "declared functions never entered by any witness replay: %s" % unenc
        if missing or unenc:
            print("[%s] group %s: missing sites %s, unentered %s" % (prop, g, missing, unenc), flush=True)

    for r in recs:
        if r["verdict"] in ("inconclusive", "engine-error"):
            print("[%s] %s: %s: %s" % (prop, r["name"], r["verdict"], r.get("why")), flush=True)
    violations = [r for r in recs if r["verdict"] == "violated"]
    broken = [r for r in recs if r["verdict"] in ("inconclusive", "engine-error")]
    partial = [r for r in recs if r["verdict"] == "bounded-inconclusive"]
    discharged = [r for r in recs if r["verdict"] == "discharged"]
    for r in recs:
        for line in r.get("lines", []):
            print(line)
    for r in recs:
        if r["verdict"] == "discharged" and r.get("cpu_s") and r.get("budget_s") and r["cpu_s"] > 0.5 * r["budget_s"]:
            print("TIGHT: obligation=%s used %.0f of %.0f CPU-s" % (r["name"], r["cpu_s"], r["budget_s"]))
    for r in partial:
        print("NOT-EXHAUSTIVE: obligation=%s budget ended after %s confirmed paths (no counter-example)" % (
            r["name"], r.get("confirmed_paths")))
    for r in violations:
        print("VIOLATION property=%s replay=%s" % (prop, os.path.relpath(r["replay_path"], ROOT)))
        print("    obligation=%s input=%s -> %s" % (
            r["name"], json.dumps(r["samples"][0]["counterexample"], sort_keys=True), r["samples"][0]["replay"]))

    wall = round(time.perf_counter() - t_start, 2)
    write_evidence(prop, a.tier, seed, recs, wall, len(violations), full=not a.ob)
    print("[%s] tier=%s obligations=%d discharged=%d bounded-inconclusive=%d violated=%d inconclusive=%d wall=%ss" % (
        prop, a.tier, len(recs), len(discharged), len(partial), len(violations), len(broken), wall))
    if violations:
        return 1
    if broken:
        return 2
    return 0


def write_evidence(prop, tier, seed, recs, wall, nviol, full=True):
    todo_mods = sorted({r.get("module", "") for r in recs})
    samples = []
    for r in recs:
        for s in r.get("samples", [])[:2]:
            samples.append(dict(obligation=r["name"], **s))
    enc = sorted({e for r in recs for e in r.get("encodes", [])})
    stubs = sorted({e for r in recs for e in r.get("stubs", [])})
    ob_rows = [
        {"name": r["name"], "engine": r.get("engine"), "verdict": r["verdict"], "bounds": r.get("bounds"),
         "paths": r.get("paths"), "confirmed_paths": r.get("confirmed_paths"), "queries": r.get("queries"),
         "solver_s": r.get("solver_s"), "budget_s": r.get("budget_s"), "cpu_s": r.get("cpu_s"), "known_regions": r.get("known_regions"),
         "functions_encoded": r.get("encodes"), "smt": r.get("smt"), "why": r.get("why")}
        for r in recs
    ]
    n_dis = sum(1 for r in recs if r["verdict"] == "discharged")
    ev = {
        "property_id": prop,
        "tier": tier,
        "seed": seed,
        "level": "other",
        "wall_s": wall,
        "violations": nviol,
        "coverage": {
            "explanation": (
                "Solver-based bounded checking of the real code: each obligation is a harness over real "
                "cincoconfig objects executed symbolically by CrossHair (z3 decides every branch; "
                "'discharged' = path tree exhausted, i.e. holds for every input inside the pre: bounds) "
                "or a direct z3 encoding regenerated from /repo's source ('discharged' = unsat). "
                "Counter-examples are replayed in plain Python before being reported. Each obligation has "
                "a reachability twin per assertion site that must be refuted (vacuity guard)."
            ),
            "obligations": len(recs),
            "discharged": n_dis,
            "bounded_inconclusive": sum(1 for r in recs if r["verdict"] == "bounded-inconclusive"),
            "inconclusive": sum(1 for r in recs if r["verdict"] in ("inconclusive", "engine-error")),
            "exhaustive": bool(recs) and n_dis == len(recs),
            "evaluations": sum(int(r.get("paths") or 0) for r in recs),
            "distinct_nontrivial": sum(int(r.get("confirmed_paths") or 0) for r in recs),
            "rule": ("evaluations = execution paths explored by the symbolic executor over all jobs (main, twins, "
                     "regions) plus SMT queries of direct encodings; distinct_nontrivial = distinct confirmed "
                     "paths of the main runs (each is a distinct solver-decided branch combination that reached "
                     "the end of the harness without being skipped)"),
            "samples": samples[:40] or [{"note": "no sample recorded"}],
            "functions_encoded": enc,
            "solver_queries": sum(int(r.get("queries") or 0) for r in recs),
            "solver_s": round(sum(float(r.get("solver_s") or 0) for r in recs), 3),
            "stubs": stubs,
            "harness_modules": todo_mods,
            "obligation_table": ob_rows,
            "partial_run": not full,
        },
        "assumptions": [
            "CrossHair 0.0.110 / z3 model Python semantics faithfully on the explored paths (counter-examples "
            "are independently replayed; confirmations rely on the engine)",
            "bounds are the pre: lines of each obligation (listed per obligation); nothing is claimed outside them",
            "%-formatting of symbolic numbers is abstracted to an opaque token (message text with numbers not modelled)",
        ] + ["stub: " + s for s in stubs],
    }
    d = os.path.join(OUT, "evidence")
    os.makedirs(d, exist_ok=True)
    with open(os.path.join(d, prop + ".json"), "w") as fp:
        json.dump(ev, fp, indent=1, sort_keys=True)


if __name__ == "__main__":
    sys.exit(main())
