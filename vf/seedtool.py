"""Seeded-change bookkeeping.

  python -m vf.seedtool verify <dir>            confirm in a scratch worktree: tests still pass with the patch,
                                                 demo fails with it and passes without it
  python -m vf.seedtool detect <dir> [IDs...]    apply the patch to /repo, run ./check for the property (or the
                                                 given ones), undo the patch, record the outcome in meta.json
"""
import json
import os
import re
import subprocess
import sys
import tempfile
import time

ROOT = os.path.dirname(os.path.dirname(os.path.abspath(__file__)))
REPO = "/repo"
PY = "/venv/bin/python"


def sh(cmd, cwd=None, env=None, timeout=3600):
    p = subprocess.run(cmd, cwd=cwd, env=env, capture_output=True, text=True, timeout=timeout, shell=isinstance(cmd, str))
    return p.returncode, p.stdout + p.stderr


def load_meta(d):
    p = os.path.join(d, "meta.json")
    return json.load(open(p)) if os.path.exists(p) else {}


def save_meta(d, meta):
    with open(os.path.join(d, "meta.json"), "w") as fp:
        json.dump(meta, fp, indent=1, sort_keys=True)


def verify(d):
    d = os.path.abspath(d)
    wt = tempfile.mkdtemp(prefix="seedverify_", dir="/tmp")
    os.rmdir(wt)
    rc, out = sh(["git", "-C", REPO, "worktree", "add", "-q", "--detach", wt, "HEAD"])
    res = {}
    try:
        env = dict(os.environ, PYTHONPATH=wt, HOME=tempfile.mkdtemp(prefix="seedhome_", dir="/tmp"))
        demo = os.path.join(d, "demo.py")
        rc0, out0 = sh([PY, demo], cwd=wt, env=env, timeout=600)
        res["demo_clean_rc"] = rc0
        rc, out = sh(["git", "apply", os.path.join(d, "patch.diff")], cwd=wt)
        res["patch_applies"] = rc == 0
        if rc != 0:
            res["apply_error"] = out[-500:]
            return res
        rc, out = sh([PY, "-m", "pytest", "-q", "-p", "no:cacheprovider", "tests"], cwd=wt, env=env, timeout=900)
        m = re.search(r"(\d+) failed, (\d+) passed", out) or re.search(r"(\d+) passed", out)
        res["tests"] = m.group(0) if m else out[-300:]
        res["tests_ok"] = bool(re.search(r"\b1 failed, 477 passed", out))
        rc1, out1 = sh([PY, demo], cwd=wt, env=env, timeout=600)
        res["demo_patched_rc"] = rc1
        res["demo_patched_tail"] = out1[-400:]
        res["confirmed"] = res["tests_ok"] and rc0 == 0 and rc1 != 0
    finally:
        sh(["git", "-C", REPO, "worktree", "remove", "--force", wt])
    return res


def detect(d, props):
    """run the checks against a scratch worktree with the patch applied (never touches /repo)"""
    d = os.path.abspath(d)
    wt = tempfile.mkdtemp(prefix="seeddetect_", dir="/tmp")
    os.rmdir(wt)
    rc, out = sh(["git", "-C", REPO, "worktree", "add", "-q", "--detach", wt, "HEAD"])
    results = {}
    try:
        rc, out = sh(["git", "apply", os.path.join(d, "patch.diff")], cwd=wt)
        if rc != 0:  # context drifted because of a later fix: commit nearby: retry with less context
            rc, out = sh(["git", "apply", "-C1", os.path.join(d, "patch.diff")], cwd=wt)
        if rc != 0:  # ... or merge against the blobs the patch was written for
            rc, out = sh(["git", "apply", "--3way", os.path.join(d, "patch.diff")], cwd=wt)
            if rc == 0:
                sh(["git", "reset", "-q"], cwd=wt)
        if rc != 0 and os.path.exists(os.path.join(d, "patch_rebased.diff")):
            # the change re-done by hand on top of later fix: commits (patch.diff stays as its author wrote it)
            sh(["git", "reset", "--hard", "-q"], cwd=wt)
            rc, out = sh(["git", "apply", os.path.join(d, "patch_rebased.diff")], cwd=wt)
        if rc != 0:
            raise SystemExit("patch does not apply: " + out)
        for prop in props:
            t0 = time.time()
            scratch = tempfile.mkdtemp(prefix="seedout_", dir="/tmp")
            rc, out = sh([os.path.join(ROOT, "check"), prop, "--tier", "quick"], cwd=ROOT, timeout=3600,
                         env=dict(os.environ, VF_OUT_DIR=scratch, VF_REPO=wt))
            sh(["rm", "-rf", scratch])
            viol = [ln for ln in out.splitlines() if ln.startswith("VIOLATION")]
            obl = [ln.strip() for ln in out.splitlines() if ln.strip().startswith("obligation=")]
            results[prop] = {"rc": rc, "violations": [v.split(" replay=")[0] + " replay=" + os.path.basename(v) for v in viol[:5]],
                             "first": obl[:3], "wall_s": round(time.time() - t0, 1),
                             "summary": out.strip().splitlines()[-1] if out.strip() else ""}
    finally:
        sh(["git", "-C", REPO, "worktree", "remove", "--force", wt])
    return results


def main():
    cmd, d = sys.argv[1], sys.argv[2]
    meta = load_meta(d)
    if cmd == "verify":
        meta["verify"] = verify(d)
        print(json.dumps(meta["verify"], indent=1))
    elif cmd == "detect":
        props = sys.argv[3:] or [meta.get("property")]
        res = detect(d, props)
        meta.setdefault("detect", {}).update(res)
        print(json.dumps(res, indent=1))
    save_meta(d, meta)
    # evidence/replays written while a seeded change was applied are not evidence of the unchanged tree
    # (the caller re-runs the check on the clean tree before committing)


if __name__ == "__main__":
    main()
