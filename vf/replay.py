"""Plain-Python replay of a counter-example (no CrossHair, real formatting).

usage: VF_REPLAY=1 /venv/bin/python -m vf.replay <replay.json> [--trace]
prints one line '@@REPLAY@@{json}': outcome = reproduced | held | skipped | error
"""
import base64
import importlib
import json
import os
import pickle
import sys
import traceback

import cincoconfig  # noqa: E402  (whatever checkout is first on the path)

REPO_PKG = os.path.realpath(os.path.dirname(cincoconfig.__file__)) + os.sep


def run(path: str, trace: bool) -> dict:
    with open(path) as fp:
        rec = json.load(fp)
    importlib.import_module(rec["module"])
    from vf.hlib import REGISTRY, Skipped, Violated

    ob = REGISTRY[rec["obligation"]]
    args = pickle.loads(base64.b64decode(rec["args_b64"]))
    fn = ob.replay_fn or ob.fn
    entered = set()

    def prof(frame, event, arg):
        if event == "call":
            co = frame.f_code
            fnm = os.path.realpath(co.co_filename)
            if fnm.startswith(REPO_PKG):
                mod = fnm[len(os.path.dirname(REPO_PKG.rstrip(os.sep))) + 1 : -3].replace(os.sep, ".")
                entered.add(mod + "." + co.co_qualname)

    out = {"obligation": ob.name}
    if trace:
        sys.setprofile(prof)
    try:
        ret = fn(**args)
        out["outcome"] = "held" if ret else "reproduced"
        out["detail"] = "returned %r" % (ret,)
    except Violated as exc:
        out["outcome"] = "reproduced"
        out["detail"] = "Violated: %s" % exc
    except Skipped as exc:
        out["outcome"] = "skipped"
        out["detail"] = str(exc)
    except Exception as exc:  # unexpected exception from the harness = failure, as in CrossHair
        out["outcome"] = "reproduced"
        out["detail"] = "%s: %s" % (type(exc).__name__, exc)
        out["traceback"] = traceback.format_exc()[-2000:]
    finally:
        sys.setprofile(None)
    if trace:
        out["entered"] = sorted(entered)
    return out


if __name__ == "__main__":
    try:
        res = run(sys.argv[1], "--trace" in sys.argv[2:])
    except BaseException as exc:  # noqa: BLE001
        res = {"outcome": "error", "detail": "%s: %s" % (type(exc).__name__, exc),
               "traceback": traceback.format_exc()[-2000:]}
    sys.stdout.write("\n@@REPLAY@@" + json.dumps(res) + "\n")
