"""Regenerate MANIFEST.json from the table below:  /venv/bin/python -m vf.mkmanifest"""
import glob
import json
import os

ROOT = os.path.dirname(os.path.dirname(os.path.abspath(__file__)))

TECH_CH = "symbolic execution of the real code (CrossHair + z3), exhaustive path exploration within stated bounds"

# id -> (technique, level text, level note, design ref)
PROPS = {
    "C01": (TECH_CH + "; inductive step over mutation routes",
            "bounded exhaustive: for each field kind x mutation route, one public operation from an arbitrary valid state keeps every readable value inside the oracle predicate of its field, for every argument within the bounds",
            "oracle predicates re-implemented from documented option semantics; CrossHair/z3 soundness on confirmed paths; bounds = pre: lines", "5/C01"),
    "C02": (TECH_CH + " at the tree level; MemFormat through dumps/loads glue",
            "bounded exhaustive at the tree level (to_tree -> load_tree into a fresh config) per field kind; byte-level codecs are outside the solver's reach (concretised cross-check only)",
            "IdealCipher/IdealHash stubs, FakeFS; third-party codecs not encoded", "5/C02"),
    "C03": (TECH_CH + " over a symbolic configuration shape with FakeFS recording every open",
            "bounded exhaustive over shapes (depth, who names a key file, creation route): ciphertext leaf shape, only the oracle key path is opened, reload yields plaintext",
            "XOR real, AES via IdealCipher stub; byte-level secrecy not claimed", "5/C03"),
    "C04": (TECH_CH + " on XmlConfigFormat element mapping, YAML root_key glue, registry",
            "bounded exhaustive on the repo-owned format logic over symbolic plain-data trees; json/yaml/bson/pickle/expat internals not encodable (stated partial)",
            "textual layer stubbed by inverse pairs; ET.Element real", "5/C04"),
    "C05": (TECH_CH + " per field class; direct z3 encodings (regex language inclusion, IEEE-754 bounds) regenerated from the repo's source",
            "bounded exhaustive: validate accepts exactly the oracle set, is idempotent, and to_python(to_basic(v)) == v, per field class with symbolic options",
            "oracles from docstrings; regex translator validated on repo literals; bounds = pre: lines", "5/C05"),
    "C06": (TECH_CH + " with whole-state snapshots around one failing operation",
            "bounded exhaustive: from an arbitrary valid state one rejected operation leaves snapshot (values, defined-ness, sub-config identity) equal",
            "MemFormat/FakeFS for document loads; parser internals concretised", "5/C06"),
    "C07": (TECH_CH + " over FakeFS: symbolic operation histories + inductive step against a reference state machine",
            "bounded exhaustive over histories <= bound of enter/exit/encrypt/decrypt/new object/external file change with symbolic file length",
            "FakeFS models open/read/write; urandom symbolic; concurrency out of scope", "5/C07"),
    "C08": ("re-execution of XorProvider/AesProvider source over z3 bit-vector bytes (QF_BV, unsat = holds); CrossHair for method resolution and SecureField.to_python shapes",
            "bounded proof-by-solver for XOR (all 32-byte keys, all texts up to N) and the AES glue under an ideal-cipher stub; standard-AES interoperability not encodable",
            "IdealCipher contract; OpenSSL not encoded", "5/C08"),
    "C09": (TECH_CH + " with IdealHash and symbolic os.urandom",
            "bounded exhaustive: salt = urandom(digest_size), digest = H(salt+p), challenge(p) ok, challenge(q!=p) fails, serialised form has only salt/digest",
            "ideal-hash assumption (no collisions); hashlib not encoded", "5/C09"),
    "C10": (TECH_CH + " over symbolic schema shapes with sensitive flags",
            "bounded exhaustive: masked tree equals oracle tree for every placement of sensitive fields (root, nested, config type, list item) and every mask",
            "oracle = to_tree() without mask + documented replacement rule", "5/C10"),
    "C11": (TECH_CH + " over symbolic required/default/flag/validator selectors",
            "bounded exhaustive: load returns iff the recursive oracle says no required field is unset and no validator raises; collecting mode agrees",
            "oracle from the property statement", "5/C11"),
    "C12": (TECH_CH + "; one step from arbitrary state against a reference state machine",
            "bounded exhaustive over ops (set ok/bad, load, reset, ctor kw) per field kind",
            "reference machine from the statement", "5/C12"),
    "C13": (TECH_CH + " with two live configurations and schema snapshots",
            "bounded exhaustive over op sequences on one configuration; the other configuration and the schema snapshot stay equal",
            "user-created aliasing out of scope", "5/C13"),
    "C14": (TECH_CH + " with a fake os.environ",
            "bounded exhaustive over schema/field env settings x depth (naming) and variable states (precedence)",
            "FakeEnviron is a dict", "5/C14"),
    "C15": (TECH_CH + " over symbolic positions and offending values",
            "bounded exhaustive: every rejection is ValidationError with the oracle path, for each container kind x route x value shape",
            "readonly virtual fields and undeclared keys excluded as the statement does", "5/C15"),
    "C16": (TECH_CH + " over symbolic schema shapes and symbolic command lines (argparse runs symbolically)",
            "bounded exhaustive: enumeration/lookup/ref-path agreement and override == oracle for all presence patterns",
            "argparse is pure Python and executed as is", "5/C16"),
    "C17": (TECH_CH + "; differential against built-in list/dict over symbolic operation sequences",
            "bounded exhaustive over op sequences with symbolic arguments and iterable kinds",
            "reference = built-in containers of oracle-normalised items", "5/C17"),
    "C18": (TECH_CH + " against a reference deep merge; MemFormat + FakeFS for Config.loads with includes",
            "bounded exhaustive over tree pairs with colliding keys and include placements",
            "format parsers replaced by MemFormat", "5/C18"),
    "C19": (TECH_CH + " with a symbolic fault index over the serialisation steps",
            "exhaustive over fault points k: failing dumps => no write-mode open of the destination and identical bytes",
            "FakeFS; faults injected by wrapping steps in the harness", "5/C19"),
    "C20": (TECH_CH + " over symbolic schema/method-signature shapes",
            "bounded exhaustive over field-kind presence and signature shapes: stub parses, declares the oracle set, no stdout, no mutation",
            "ast.parse on concrete text", "5/C20"),
}


def main():
    claimed = sorted({os.path.basename(p)[:3] for p in glob.glob(os.path.join(ROOT, "harness", "C??_*.py"))})
    na_file = os.path.join(ROOT, "vf", "not_applicable.json")
    na = json.load(open(na_file)) if os.path.exists(na_file) else {}
    checks = []
    for pid in claimed:
        if pid in na:
            continue
        tech, text, note, ref = PROPS[pid]
        checks.append({
            "property_id": pid,
            "quick_cmd": "./check %s --tier quick" % pid,
            "thorough_cmd": "./check %s --tier thorough" % pid,
            "evidence_file": "evidence/%s.json" % pid,
            "replay_cmd_template": "./check %s --replay {path}" % pid,
            "engine": "vf",
            "level_claimed": {"category": "other", "text": text, "design_ref": "DESIGN.md section " + ref},
            "level_note": note,
            "technique": tech,
        })
    not_app = []
    for pid in sorted(PROPS):
        if pid in na:
            not_app.append({"property_id": pid, "reason": na[pid]})
        elif pid not in claimed:
            not_app.append({"property_id": pid, "reason": "not claimed at this commit: no sound obligation landed yet (work in progress, see DESIGN.md)"})
    man = {
        "version": 1,
        "setup_cmd": "./check --setup",
        "hooks": {
            "guard": "CINCOCONFIG_VERIF",
            "enable": "no source hooks: harnesses observe through public API, ConfigFormat.register and mock.patch",
            "baseline_off_cmd": "cd /repo && /venv/bin/python -m pytest -ra -q -p no:cacheprovider --timeout=900 --continue-on-collection-errors",
            "source_commits": [],
            "add_only": True,
        },
        "engines": [{
            "name": "vf",
            "path": "vf/",
            "serves_properties": [c["property_id"] for c in checks],
            "kind_free_text": "CrossHair 0.0.110 symbolic execution of /repo's Python (z3 5.1) driven through its API, one obligation per worker process, plus direct z3/cvc5 encodings regenerated from repo source (regex, XOR/AES glue over bit-vectors, IEEE bounds)",
        }],
        "checks": checks,
        "not_applicable": not_app,
        "notes": "exit 0 held / 1 VIOLATION / 2 inconclusive (never a pass). Known findings: known_findings.json.",
    }
    with open(os.path.join(ROOT, "MANIFEST.json"), "w") as fp:
        json.dump(man, fp, indent=1)
    print("claimed:", [c["property_id"] for c in checks])


if __name__ == "__main__":
    main()
