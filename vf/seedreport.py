"""Markdown table of the seeded changes and which obligations caught them:  python -m vf.seedreport"""
import glob
import json
import os
import re

ROOT = os.path.dirname(os.path.dirname(os.path.abspath(__file__)))


def main():
    rows = []
    for d in sorted(glob.glob(os.path.join(ROOT, "seeded", "*"))):
        mp = os.path.join(d, "meta.json")
        if not os.path.exists(mp):
            continue
        m = json.load(open(mp))
        name = os.path.basename(d)
        patch = open(os.path.join(d, "patch.diff")).read()
        files = sorted(set(re.findall(r"^\+\+\+ b/(\S+)", patch, re.M)))
        det = m.get("detect", {})
        caught = []
        for prop, r in det.items():
            obs = sorted({re.sub(r"-cex-.*", "", v.split("replay=")[-1]) for v in r.get("violations", [])})
            if r.get("rc") == 1:
                caught.append("%s: %s" % (prop, ", ".join(obs[:4]) + (" ..." if len(obs) > 4 else "")))
            elif r.get("rc") == 2:
                caught.append("%s: inconclusive (exit 2)" % prop)
        summary = m.get("summary") or ""
        first = str(m.get("first_version_of_checks", ""))
        first = "caught" if first.startswith("caught") else ("missed" if first.startswith("missed") else (
            "exit 2" if first.startswith("exit 2") else "n/m"))
        rows.append((name, ", ".join(os.path.basename(f) for f in files), summary,
                     "yes" if m.get("verify", {}).get("confirmed") else "NO", first, "; ".join(caught) or "**missed**"))
    print("| seed | files | change / what it needs | confirmed | checks as they were | caught now by |")
    print("|---|---|---|---|---|---|")
    for r in rows:
        print("| " + " | ".join(str(x).replace("|", "/") for x in r) + " |")


if __name__ == "__main__":
    main()
