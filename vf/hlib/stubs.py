"""Environment stubs used by harnesses (each is part of every claim that uses it)."""
import builtins
import contextlib
import os
from typing import Any, Dict, List, Optional, Tuple
from unittest import mock

from . import REPLAY, skip

HOME = "/home/u"
_REAL_CLOSE, _REAL_WRITE, _REAL_FDOPEN = os.close, os.write, os.fdopen


# --------------------------------------------------------------------------- FakeFS
class _Reader:
    def __init__(self, data):
        self._data = data
        self._done = False
        self._pos = 0

    def read(self, n=-1):
        """whole remaining content, or at most n bytes of it (like a real file object)"""
        empty = "" if isinstance(self._data, str) else b""
        if self._done:
            return empty
        if n is None or n < 0:
            self._done = True
            if self._pos == 0:
                return self._data
            return self._data[self._pos:]
        chunk = self._data[self._pos:self._pos + n]
        self._pos += n
        if self._pos >= len(self._data):
            self._done = True
        return chunk

    def close(self):
        pass

    def __enter__(self):
        return self

    def __exit__(self, *a):
        return False


class _Writer:
    def __init__(self, fs, path):
        self.fs, self.path, self.parts = fs, path, []
        fs.files[path] = b""  # open(..., 'wb') truncates at once
        fs.writes.append(path)

    def write(self, data):
        if isinstance(data, str) or data is None or isinstance(data, (int, float, list, dict, tuple)):
            # a binary file refuses anything that is not bytes-like (the file is already truncated by then)
            raise TypeError("a bytes-like object is required, not '%s'" % type(data).__name__)
        if isinstance(data, memoryview) and not data.contiguous:
            raise BufferError("memoryview: underlying buffer is not C-contiguous")
        self.parts.append(data)
        self._flush()
        return len(data)

    def _flush(self):
        if len(self.parts) == 1:
            self.fs.files[self.path] = self.parts[0]
        else:
            out = b""
            for p in self.parts:
                out = out + p
            self.fs.files[self.path] = out

    def close(self):
        pass

    def __enter__(self):
        return self

    def __exit__(self, *a):
        return False


class FakeFS:
    """In-memory file system: path -> bytes, a set of directories, an open log."""

    def __init__(self, files: Optional[Dict[str, Any]] = None, dirs=(), unwritable_dirs=(), unreadable=()):
        self.files: Dict[str, Any] = dict(files or {})
        self.dirs = set(dirs) | {"/", HOME, "/cfg", "/nonexistent-home-vf"}
        self.unwritable_dirs = set(unwritable_dirs)
        self.unreadable = set(unreadable)
        self.opens: List[Tuple[str, str]] = []
        self.writes: List[str] = []
        self._fds: Dict[int, str] = {}

    # -- the patched entry points
    def open(self, path, mode="r", *a, **kw):
        path = os.fspath(path)
        self.opens.append((path, mode))
        if "w" in mode:
            d = os.path.dirname(path) or "/"
            if path in self.dirs:
                raise IsADirectoryError(21, "Is a directory", path)
            if d in self.unwritable_dirs:
                raise PermissionError(13, "Permission denied", path)
            if d not in self.dirs:
                raise FileNotFoundError(2, "No such file or directory", path)
            return _Writer(self, path)
        if path in self.dirs:
            raise IsADirectoryError(21, "Is a directory", path)
        if path in self.unreadable:
            raise PermissionError(13, "Permission denied", path)
        if path not in self.files:
            raise FileNotFoundError(2, "No such file or directory", path)
        return _Reader(self.files[path])

    def exists(self, p):
        return p in self.files or p in self.dirs

    def isfile(self, p):
        return p in self.files

    def isdir(self, p):
        return p in self.dirs

    @staticmethod
    def expanduser(p):
        if p == "~":
            return HOME
        if isinstance(p, str) and p.startswith("~/"):
            return HOME + p[1:]
        return p

    # -- low-level file descriptors (os.open & co.)
    def os_open(self, path, flags, mode=0o777, *a, **kw):
        path = os.fspath(path)
        writing = bool(flags & (os.O_WRONLY | os.O_RDWR))
        m = ("w" if writing else "r") + ("+" if flags & os.O_RDWR else "") + ("t" if flags & os.O_TRUNC else "")
        self.opens.append((path, "os.open:" + m))
        exists = path in self.files
        if not exists:
            if not flags & os.O_CREAT:
                raise FileNotFoundError(2, "No such file or directory", path)
            d = os.path.dirname(path) or "/"
            if d not in self.dirs:
                raise FileNotFoundError(2, "No such file or directory", path)
            if d in self.unwritable_dirs:
                raise PermissionError(13, "Permission denied", path)
            self.files[path] = b""
            self.writes.append(path)
        elif flags & os.O_TRUNC and writing:
            self.files[path] = b""
            self.writes.append(path)
        fd = 1000 + len(self._fds)
        self._fds[fd] = path
        return fd

    def os_close(self, fd):
        if fd in self._fds:
            return None
        return _REAL_CLOSE(fd)

    def os_write(self, fd, data):
        if fd in self._fds:
            self.files[self._fds[fd]] = self.files.get(self._fds[fd], b"") + data
            return len(data)
        return _REAL_WRITE(fd, data)

    def os_fdopen(self, fd, mode="r", *a, **kw):
        if fd in self._fds:
            return self.open(self._fds[fd], mode)
        return _REAL_FDOPEN(fd, mode, *a, **kw)

    @contextlib.contextmanager
    def patched(self):
        with mock.patch.object(builtins, "open", self.open), \
                mock.patch.object(os, "open", self.os_open), \
                mock.patch.object(os, "close", self.os_close), \
                mock.patch.object(os, "write", self.os_write), \
                mock.patch.object(os, "fdopen", self.os_fdopen), \
                mock.patch.object(os.path, "exists", self.exists), \
                mock.patch.object(os.path, "isfile", self.isfile), \
                mock.patch.object(os.path, "isdir", self.isdir), \
                mock.patch.object(os.path, "expanduser", self.expanduser):
            yield self

    def opened_paths(self):
        return [p for p, _ in self.opens]


# --------------------------------------------------------------------------- environ
@contextlib.contextmanager
def fake_environ(values: Dict[str, str]):
    """os.environ replaced by a plain dict (values may be symbolic strings)."""
    with mock.patch.object(os, "environ", dict(values)):
        yield


# --------------------------------------------------------------------------- urandom
class Urandom:
    """os.urandom(n) -> fresh unconstrained symbolic bytes of length n (real bytes in replay)."""

    def __init__(self, tag="r"):
        self.calls: List[Tuple[int, Any]] = []
        self.tag = tag

    def __call__(self, n: int):
        if REPLAY:
            out = _REAL_URANDOM(n)
        else:
            out = fresh_bytes(n, "%s%d" % (self.tag, len(self.calls)))
        self.calls.append((n, out))
        return out

    @contextlib.contextmanager
    def patched(self):
        with mock.patch.object(os, "urandom", self):
            yield self


_REAL_URANDOM = os.urandom


def fresh_bytes(n: int, name: str):
    """Fixed-length symbolic bytes (each element 0..255)."""
    from crosshair.core import proxy_for_type  # type: ignore
    from crosshair.libimpl.builtinslib import SymbolicBytes  # type: ignore

    import z3  # type: ignore
    from crosshair.statespace import context_statespace  # type: ignore
    from crosshair.tracers import NoTracing  # type: ignore

    items = []
    for i in range(n):
        x = proxy_for_type(int, "%s_%d" % (name, i))
        with NoTracing():
            # constrain directly (no fork): 0 <= x < 256
            context_statespace().add(z3.And(x.var >= 0, x.var < 256))
        items.append(x)
    return SymbolicBytes(items)


def bytes_of(ints):
    """bytes value from a list of (symbolic) ints already constrained to 0..255 (plain bytes in replay)"""
    if REPLAY:
        return bytes(ints)
    from crosshair.libimpl.builtinslib import SymbolicBytes  # type: ignore

    return SymbolicBytes(list(ints))


def bytes_equal(a, b) -> bool:
    """a == b for (symbolic) byte strings decided by ONE solver fork instead of one per byte"""
    if REPLAY:
        return a == b
    import z3  # type: ignore
    from crosshair.statespace import context_statespace  # type: ignore
    from crosshair.tracers import NoTracing  # type: ignore

    with NoTracing():
        try:
            ia = list(getattr(a, "inner", a))
            ib = list(getattr(b, "inner", b))
        except TypeError:
            ia = ib = None
        term = None
        if ia is not None and len(ia) == len(ib):
            parts = []
            for x, y in zip(ia, ib):
                tx = x.var if hasattr(x, "var") else z3.IntVal(int(x))
                ty = y.var if hasattr(y, "var") else z3.IntVal(int(y))
                parts.append(tx == ty)
            term = z3.And(parts) if parts else z3.BoolVal(True)
        elif ia is not None:
            term = z3.BoolVal(False)
    if term is None:
        return a == b
    with NoTracing():
        return context_statespace().smt_fork(term)


# --------------------------------------------------------------------------- ideal hash
class IdealHash:
    """Deterministic function of its input; fresh unconstrained digest per distinct input;
    distinct inputs never collide (ideal-hash assumption).  In replay: real hashlib."""

    def __init__(self, name: str, digest_size: int, real):
        self.name, self.digest_size, self.real = name, digest_size, real
        self.table: List[Tuple[Any, Any]] = []

    def lookup(self, data):
        for known_in, known_out in self.table:
            if bytes_equal(data, known_in):
                return known_out
        out = fresh_bytes(self.digest_size, "h%s_%d" % (self.name, len(self.table)))
        # no collisions; asserted on the first byte so that byte-wise comparisons in the code under test decide
        # at once instead of forking once per digest byte (a stronger-than-necessary but harmless idealisation)
        import z3  # type: ignore
        from crosshair.statespace import context_statespace  # type: ignore
        from crosshair.tracers import NoTracing  # type: ignore

        with NoTracing():
            for _, other in self.table:
                context_statespace().add(out.inner[0].var != other.inner[0].var)
        self.table.append((data, out))
        return out

    def __call__(self, data=b""):
        if REPLAY:
            return self.real(data)
        return _Hasher(self, data)


class _Hasher:
    def __init__(self, algo: IdealHash, data):
        self.algo, self.data = algo, data
        self.digest_size = algo.digest_size

    def update(self, more):
        self.data = self.data + more

    def digest(self):
        return self.algo.lookup(self.data)


@contextlib.contextmanager
def ideal_hashes():
    import hashlib

    from cincoconfig.fields.secure_field import ChallengeField

    table = {
        name: IdealHash(name, getattr(hashlib, name)().digest_size, getattr(hashlib, name))
        for name in ("md5", "sha1", "sha224", "sha256", "sha384", "sha512")
    }
    with mock.patch.dict(ChallengeField.ALGORITHMS, table):
        yield table


# --------------------------------------------------------------------------- MemFormat
class MemStore:
    """Backing store of the 'mem' format: documents are opaque handles mapped to trees."""

    def __init__(self):
        self.docs: Dict[bytes, Any] = {}
        self.dumps_calls = 0
        self.loads_calls = 0
        self.created: List[Dict[str, Any]] = []      # keyword options of every formatter instance built

    def put(self, tree) -> bytes:
        handle = b"MEM:%d" % len(self.docs)
        self.docs[handle] = tree
        return handle

    @contextlib.contextmanager
    def registered(self):
        from cincoconfig.core import ConfigFormat

        store = self

        class MemFormat(ConfigFormat):
            """option `wrap=K` (like YAML's root_key / XML's root_tag): documents are the tree wrapped in {K: tree};
            a formatter built without the option a document was written with does not understand it"""

            def __init__(self, **kw):
                self.kw = kw
                store.created.append(dict(kw))

            def dumps(self, config, tree):
                store.dumps_calls += 1
                tree = _deep(tree)
                if self.kw.get("wrap"):
                    tree = {self.kw["wrap"]: tree}
                return store.put(tree)

            def loads(self, config, content):
                store.loads_calls += 1
                if content not in store.docs:
                    raise ValueError("malformed document")
                tree = _deep(store.docs[content])
                if self.kw.get("wrap"):
                    if not isinstance(tree, dict) or list(tree) != [self.kw["wrap"]]:
                        raise ValueError("unexpected root")
                    tree = tree[self.kw["wrap"]]
                return tree

        ConfigFormat.initialize_registry()
        ConfigFormat.register("mem", MemFormat)
        try:
            yield self
        finally:
            ConfigFormat._ConfigFormat__registry.pop("mem", None)


def _deep(x):
    if isinstance(x, dict):
        return {k: _deep(v) for k, v in x.items()}
    if isinstance(x, list):
        return [_deep(v) for v in x]
    return x


# --------------------------------------------------------------------------- observation
def plain(value):
    """Deep plain copy of what is readable from a configuration (public API only)."""
    from cincoconfig.core import Config

    if isinstance(value, Config):
        return {k: plain(v) for k, v in value}
    if isinstance(value, dict):
        return {k: plain(v) for k, v in value.items()}
    if isinstance(value, (list, tuple)):
        return [plain(v) for v in value]
    return value


def is_plain_data(x, depth=0) -> bool:
    """strings, numbers, booleans, null, lists, string-keyed maps (exact built-in types)."""
    if x is None or type(x) in (bool, int, float, str):
        return True
    if depth > 8:
        return False
    if type(x) is list:
        return all(is_plain_data(i, depth + 1) for i in x)
    if type(x) is dict:
        return all(type(k) is str and is_plain_data(v, depth + 1) for k, v in x.items())
    return False


# --------------------------------------------------------------------------- engine workarounds
def make_type_nt(schema, name, **kw):
    """cincoconfig.make_type with CrossHair's interception off: its `type(name, bases, ns)` patch deep-copies
    the namespace (and with it the Schema, whose __getattr__ recurses on a blank copy)."""
    from cincoconfig import make_type

    if REPLAY:
        return make_type(schema, name, **kw)
    try:
        from crosshair.tracers import NoTracing  # type: ignore
    except ImportError:      # plain interpreter (metadata import by the runner)
        return make_type(schema, name, **kw)

    with NoTracing():
        return make_type(schema, name, **kw)


@contextlib.contextmanager
def untraced():
    """Run a block of purely concrete code (third-party codecs on menu values) without the symbolic tracer."""
    if REPLAY:
        yield
        return
    from crosshair.tracers import NoTracing  # type: ignore

    with NoTracing():
        yield
