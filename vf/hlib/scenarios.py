"""Concrete multi-session scenarios shared by several properties' harnesses (menu-driven, run untraced)."""
from vf.hlib import hold
from vf.hlib.stubs import FakeFS, untraced

K1 = bytes((i * 13 + 1) % 256 for i in range(32))
K2 = bytes((i * 29 + 7) % 256 for i in range(32))
PATH = "/k/sessions.key"
TEXTS = (b"", b"A", b"sixteen byte msg", b"x" * 40)


def sessions_across_key_change(site: str, method: str, first_use: int, text: bytes, change: int, nested: bool) -> bool:
    """One KeyFile OBJECT used for two sessions; between them the key file is replaced by another valid key
    (change 0), deleted so that a new key is generated (1), or regenerated through generate_key() (2).
    Session 2 must work with the key that is in the file at that time: what it encrypts is readable by a NEW
    KeyFile object for the same path (a later process), what such an object encrypts is readable by it, and for
    xor the ciphertext is the text XORed with exactly the file's bytes."""
    from cincoconfig.encryption import KeyFile
    with untraced():
        fs = FakeFS(files={PATH: K1}, dirs=["/k"])
        with fs.patched():
            kf = KeyFile(PATH)
            with kf:
                if first_use == 1:
                    kf.encrypt(text, method=method)
                elif first_use == 2:
                    kf.decrypt(kf.encrypt(text, method=method))
            if change == 0:
                fs.files[PATH] = K2
            elif change == 1:
                del fs.files[PATH]
            else:
                kf.generate_key()
            current = lambda: fs.files[PATH]  # noqa: E731
            with kf:
                if nested:
                    kf.__enter__()
                sv = kf.encrypt(text, method=method)
                hold(site, kf.decrypt(sv) == text, "no round trip inside the second session")
                if nested:
                    kf.__exit__(None, None, None)
                key_now = bytes(current())
                with KeyFile(PATH) as other:
                    foreign = other.encrypt(text, method=method)
                    try:
                        back = other.decrypt(sv)
                    except Exception as exc:  # noqa: BLE001
                        back = exc
                hold(site, back == text,
                     lambda: "what the second session of a reused KeyFile object encrypted (%s) is not readable "
                             "with the key now in the file: %r" % (method, back))
                try:
                    mine = kf.decrypt(foreign)
                except Exception as exc:  # noqa: BLE001
                    mine = exc
                hold(site, mine == text,
                     lambda: "the second session cannot read what a new KeyFile object encrypted (%s): %r" % (method, mine))
                if sv.method == "xor":
                    hold(site, sv.ciphertext == bytes(t ^ key_now[i % 32] for i, t in enumerate(text)),
                         "xor ciphertext is not the text XORed with the key file's bytes")
            hold(site, kf._KeyFile__key is None, "key material retained after the session")
    return True
