"""Harness library: obligation registry, site/region steering, violation signalling.

A harness is a plain function with a PEP-316 contract (`pre:` lines = bounds,
`post: _`).  It returns True; a property failure is signalled by raising
`Violated(label)` through `hold(site, cond, label)`.

Steering state comes from the environment (set by the worker before the
harness module is imported, constant for the whole run, so CrossHair's
re-execution per path stays deterministic):

  VF_MODE     ''            normal run
              'twin:<site>' reachability twin: reaching hold(<site>) fails
  VF_EXCLUDE  'r1,r2'       known-finding regions to leave out (skip)
  VF_ONLY     'r'           restrict the run to region r
  VF_REPLAY   '1'           plain-Python replay (no CrossHair present)
"""
import os
from typing import Any, Callable, Dict, List, Optional, Sequence

REPLAY = os.environ.get("VF_REPLAY") == "1"
_MODE = os.environ.get("VF_MODE", "")
TWIN_SITE: Optional[str] = _MODE[5:] if _MODE.startswith("twin:") else None
EXCLUDE = frozenset(x for x in os.environ.get("VF_EXCLUDE", "").split(",") if x)
ONLY: Optional[str] = os.environ.get("VF_ONLY") or None
TIER = os.environ.get("VERIF_TIER", "quick")

try:  # CrossHair present (worker) -> its own path-steering exception
    if REPLAY:
        raise ImportError
    from crosshair.util import IgnoreAttempt as _Ignore  # type: ignore
except ImportError:  # replay in plain /venv python

    class _Ignore(BaseException):  # type: ignore
        pass


class Violated(Exception):
    """The property does not hold on this path (raised only from harness code)."""


class Skipped(_Ignore):  # type: ignore
    """Path outside the property's assumptions / outside the selected region."""


def skip(why: str = "") -> None:
    raise Skipped(why)


PATH_SITES: List[str] = []  # sites passed on the current path (reset by the driver per path)
REACHED: Dict[str, int] = {}  # site -> number of confirmed paths through it (driver)


def hold(site: str, cond: Any, label: Any = "") -> bool:
    """The property was evaluated at `site`; `cond` must be true there."""
    PATH_SITES.append(site)
    if TWIN_SITE is not None:
        if TWIN_SITE == site:
            raise Violated("twin:" + site)
        return True
    if not cond:
        if callable(label):  # lazy label: only rendered in plain-Python replay (may format symbolic containers)
            label = label() if REPLAY else ""
        raise Violated(site + (":" + label if label else ""))
    return True


def known(region: str, cond: Any) -> None:
    """Declare that the current inputs fall (cond) or not into a named region.

    Regions only matter when listed in known_findings.json: then the main run
    leaves them out and a separate run is restricted to each.
    """
    if region in EXCLUDE:
        if cond:
            skip("region " + region)
    elif ONLY == region:
        if not cond:
            skip("outside region " + region)


# ---------------------------------------------------------------------------
# registry


class Obligation:
    def __init__(self, fn: Callable, **meta: Any):
        self.fn = fn
        self.name: str = meta.pop("name", None) or fn.__name__
        self.prop: str = meta.pop("prop")
        self.engine: str = meta.pop("engine", "ch")
        self.sites: Sequence[str] = meta.pop("sites", ("end",))
        self.encodes: Sequence[str] = meta.pop("encodes", ())
        self.regions: Sequence[str] = meta.pop("regions", ())
        self.budget: Dict[str, float] = meta.pop("budget", {"quick": 30, "thorough": 240})
        self.tiers: Sequence[str] = meta.pop("tiers", ("quick", "thorough"))
        self.stubs: Sequence[str] = meta.pop("stubs", ())
        self.outside: str = meta.pop("outside", "")
        self.what: str = meta.pop("what", "")
        # bounded-inconclusive tolerated (C boundary forces concretisation)
        self.may_be_partial: bool = meta.pop("may_be_partial", False)
        self.replay_fn: Optional[Callable] = meta.pop("replay_fn", None)
        # concrete example inputs (kwargs dicts): replayed in plain Python with call tracing; they must hold
        self.examples: Sequence[Dict[str, Any]] = meta.pop("examples", ())
        # obligations of one group share their site-coverage requirement (union)
        self.group: str = meta.pop("group", None) or self.name
        self.twins: bool = meta.pop("twins", self.group == self.name)
        if meta:
            raise TypeError("unknown obligation options: %s" % sorted(meta))

    @property
    def bounds(self) -> List[str]:
        doc = self.fn.__doc__ or ""
        return [ln.strip() for ln in doc.splitlines() if ln.strip().startswith("pre:")]


REGISTRY: Dict[str, Obligation] = {}


def obligation(**meta: Any) -> Callable[[Callable], Callable]:
    def deco(fn: Callable) -> Callable:
        ob = Obligation(fn, **meta)
        if ob.name in REGISTRY:
            raise RuntimeError("duplicate obligation " + ob.name)
        REGISTRY[ob.name] = ob
        return fn

    return deco
