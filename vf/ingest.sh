#!/bin/bash
# usage: vf/ingest.sh C07 1 [DSTK]  -> copies /tmp/wt/C07/_seed/1 to seeded/C07_<DSTK or 1>, verifies and runs detection
set -e
P=$1; K=$2; D=${3:-$2}; SRC=/tmp/wt/$P/_seed/$K; DST=/verif/seeded/${P}_$D
mkdir -p $DST
cp $SRC/patch.diff $SRC/demo.py $DST/
[ -f $SRC/note.md ] && cp $SRC/note.md $DST/
/venv/bin/python - <<PY
import json,os
d="$DST"
m={"property":"$P","source":"independent sub-agent given only the property text and a scratch worktree","needs":open(os.path.join(d,"note.md")).read() if os.path.exists(os.path.join(d,"note.md")) else ""}
json.dump(m,open(os.path.join(d,"meta.json"),"w"),indent=1)
PY
cd /verif
/venv/bin/python -m vf.seedtool verify $DST | tail -12
/venv/bin/python -m vf.seedtool detect $DST $P | tail -25
