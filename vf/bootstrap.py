"""Overlay virtualenv with crosshair-tool (offline wheelhouse), layered on /venv.

Idempotent and safe to call from concurrently running checks (file lock).
cincoconfig is an editable install of /repo in /venv, so the overlay always
analyses /repo's current working tree.
"""
import fcntl
import os
import subprocess
import sys

ROOT = os.path.dirname(os.path.dirname(os.path.abspath(__file__)))
VENV = os.path.join(ROOT, ".venv")
PY = os.path.join(VENV, "bin", "python")
WHEELS = "/opt/veriftools/wheels"
BASE_PY = "/venv/bin/python"
BASE_SITE = "/venv/lib/python3.12/site-packages"


def _ok() -> bool:
    if not os.path.exists(PY):
        return False
    r = subprocess.run(
        [PY, "-c", "import crosshair, z3, cincoconfig"],
        capture_output=True,
    )
    return r.returncode == 0


def ensure(verbose: bool = False) -> str:
    if _ok():
        return PY
    lock = open(os.path.join(ROOT, ".venv.lock"), "w")
    fcntl.flock(lock, fcntl.LOCK_EX)
    try:
        if _ok():
            return PY
        if os.path.exists(VENV):
            subprocess.run(["rm", "-rf", VENV], check=True)
        subprocess.run([BASE_PY, "-m", "venv", VENV], check=True)
        site = os.path.join(VENV, "lib", "python3.12", "site-packages")
        with open(os.path.join(site, "_overlay.pth"), "w") as fp:
            fp.write("import site; site.addsitedir(%r)\n" % BASE_SITE)
        env = dict(os.environ, PIP_NO_INDEX="1")
        r = subprocess.run(
            [PY, "-m", "pip", "install", "--no-index", "--find-links", WHEELS,
             "--quiet", "crosshair-tool", "z3-solver"],
            env=env, capture_output=not verbose, text=True,
        )
        if r.returncode != 0:
            sys.stderr.write((r.stdout or "") + (r.stderr or ""))
            raise SystemExit(2)
        if not _ok():
            sys.stderr.write("bootstrap: overlay venv unusable\n")
            raise SystemExit(2)
        return PY
    finally:
        fcntl.flock(lock, fcntl.LOCK_UN)
        lock.close()


if __name__ == "__main__":
    print(ensure(verbose=True))
